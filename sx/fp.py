"""sx.fp -- IEEE-754 double proxies for the sx engine (z3 FloatingPoint theory,
Float64, round-to-nearest-even as CPython and NumPy compute).

* ``SymFloat``  a Python ``float`` whose value is a z3 Float64 term.
* ``WideInt``   a Python ``int`` backed by a 128-bit two's complement
  bit-vector (what ``int(float)`` yields, and what is converted back to a
  float).  Unlike ``sx.proxies.SymInt`` (mathematical Int or 64 bits) it holds
  every value of a 64-bit fixed-point format plus the carries of the code
  under test, and converts to and from Float64 inside the bit-vector/FP
  theories (no Int<->BV bridge, which z3 solves poorly).
* ``sym_float`` / ``sym_wide_int``  register such inputs with the engine so
  that models, replays and path validation work (kinds "fp" and "bv").
* ``shim_int`` / ``shim_float`` / ``NumpyShim``  what a module's ``int``,
  ``float`` and ``np`` names are rebound to so that the real code can be run
  on the proxies; on ordinary values they are the real thing.
* ``install_fp_solver``  swaps the engine's incremental ``z3.Solver`` (which
  falls back to the SMT core + theory_fpa, 10-50x slower on these queries) for
  a wrapper that decides every query one-shot with the ``qffp`` tactic.

``int(x)`` of a SymFloat: exact (``fp.to_sbv`` RTZ into 128 bits) for
|x| < 2**100.  For |x| >= 2**100 the integer is represented by an
*unconstrained* 128-bit integer of the same sign with magnitude in
[2**100, 2**120]: an over-approximation that is sound for code which compares
the integer with / adds to it / masks it with constants below 2**99 (larger
constants are refused: Unsupported -> inconclusive).  Every completed path is
additionally validated by a concrete replay on the real ``int``.
"""
import math
import struct
import z3

from .engine import cur, Unsupported, Inconclusive
from .proxies import SymBool, SymInt

__all__ = ["SymFloat", "WideInt", "sym_float", "sym_wide_int", "shim_int",
           "shim_float", "NumpyShim", "install_fp_solver", "fpval", "D",
           "WW", "RNE", "RTZ", "OneShotSolver", "rebound"]

D = z3.Float64()
WW = 128                      # width of WideInt
HUGE = 100                    # int() is exact below 2**HUGE
HUGE_TOP = 120                # abstracted magnitudes stay below 2**HUGE_TOP
CONST_LIMIT = 1 << 99         # integer constants a WideInt may meet


def RNE():
    return z3.RNE()


def RTZ():
    return z3.RTZ()


def _eng():
    e = cur()
    if e is None:
        raise Unsupported("proxy used outside an engine run")
    return e


def fpval(x, sort=None):
    """The double `x` as a z3 numeral, built from its bit pattern (no decimal
    round trip)."""
    bits = struct.unpack("<Q", struct.pack("<d", x))[0]
    v = z3.simplify(z3.fpBVToFP(z3.BitVecVal(bits, 64), D))
    if sort is not None and sort != D:
        v = z3.simplify(z3.fpFPToFP(z3.RNE(), v, sort))
    return v


def _int_to_double(i):
    """float(i) as CPython does it (RNE; OverflowError when too large)."""
    return float(i)


# ----------------------------------------------------------------------
class SymFloat(object):
    """A Python float with a symbolic value (z3 Float64 term in `.e`)."""
    __slots__ = ("e",)

    def __init__(self, e):
        self.e = e

    @staticmethod
    def _c(o):
        if isinstance(o, SymFloat):
            return o.e
        if isinstance(o, bool):
            return fpval(float(o))
        if isinstance(o, float):
            return fpval(float(o))
        if isinstance(o, int):
            return fpval(_int_to_double(o))
        if isinstance(o, WideInt):
            return o._to_fp()
        if isinstance(o, SymInt):
            raise Unsupported("SymFloat combined with a SymInt (use WideInt)")
        return None

    def _bin(s, o, f, swap=False):
        b = s._c(o)
        if b is None:
            return NotImplemented
        a = s.e
        if swap:
            a, b = b, a
        return SymFloat(f(a, b))

    def __add__(s, o):
        return s._bin(o, lambda a, b: z3.fpAdd(z3.RNE(), a, b))
    __radd__ = __add__

    def __sub__(s, o):
        return s._bin(o, lambda a, b: z3.fpSub(z3.RNE(), a, b))

    def __rsub__(s, o):
        return s._bin(o, lambda a, b: z3.fpSub(z3.RNE(), a, b), True)

    def __mul__(s, o):
        return s._bin(o, lambda a, b: z3.fpMul(z3.RNE(), a, b))
    __rmul__ = __mul__

    @staticmethod
    def _div(a, b):
        # Python raises on a zero divisor (IEEE would give inf/nan)
        z = z3.simplify(z3.fpIsZero(b))
        if z3.is_true(z) or (not z3.is_false(z) and _eng().branch(z)):
            raise ZeroDivisionError("float division by zero")
        return z3.fpDiv(z3.RNE(), a, b)

    def __truediv__(s, o):
        return s._bin(o, s._div)

    def __rtruediv__(s, o):
        return s._bin(o, s._div, True)

    def __neg__(s):
        return SymFloat(z3.fpNeg(s.e))

    def __pos__(s):
        return s

    def __abs__(s):
        return SymFloat(z3.fpAbs(s.e))

    # -- comparisons (IEEE: -0 == +0, NaN unordered) ---------------------
    def _cmp(s, o, f):
        if isinstance(o, int) and not isinstance(o, bool):
            # Python compares float with int exactly
            try:
                exact = int(float(o)) == o
            except OverflowError:
                exact = False
            if not exact:
                raise Unsupported("SymFloat compared with an integer that is "
                                  "not a double")
        if isinstance(o, WideInt):
            raise Unsupported("SymFloat compared with a symbolic integer")
        b = s._c(o)
        if b is None:
            return NotImplemented
        return SymBool(f(s.e, b))

    def __lt__(s, o): return s._cmp(o, z3.fpLT)
    def __le__(s, o): return s._cmp(o, z3.fpLEQ)
    def __gt__(s, o): return s._cmp(o, z3.fpGT)
    def __ge__(s, o): return s._cmp(o, z3.fpGEQ)
    def __eq__(s, o): return s._cmp(o, z3.fpEQ)
    def __ne__(s, o): return s._cmp(o, lambda a, b: z3.Not(z3.fpEQ(a, b)))

    def __hash__(s):
        return 0x515b

    def __bool__(s):
        return _eng().branch(z3.Not(z3.fpIsZero(s.e)))

    # -- leaving the floats ----------------------------------------------
    def to_int(s, rm=None):
        """The Python int nearest to the value in direction `rm` (default:
        toward zero, i.e. int(x)); raises what int(x) raises on nan / inf."""
        eng = _eng()
        x = s.e
        if eng.branch(z3.Or(z3.fpIsNaN(x), z3.fpIsInf(x))):
            if eng.branch(z3.fpIsNaN(x)):
                raise ValueError("cannot convert float NaN to integer")
            raise OverflowError("cannot convert float infinity to integer")
        t = x if rm is None else z3.fpRoundToIntegral(rm, x)
        bvs = z3.BitVecSort(WW)
        exact = z3.fpToSBV(z3.RTZ(), t, bvs)
        small = z3.simplify(z3.fpLT(z3.fpAbs(x), fpval(2.0 ** HUGE)))
        if z3.is_true(small):
            return WideInt(z3.simplify(exact))
        k = eng.fresh("hugeint", bvs)
        lo, hi = 1 << HUGE, 1 << HUGE_TOP
        eng._add(z3.If(small, k == 0,
                       z3.If(z3.fpIsNegative(x),
                             z3.And(k <= -lo, k >= -hi),
                             z3.And(k >= lo, k <= hi))))
        return WideInt(z3.If(small, exact, k))

    def __round__(s, ndigits=None):
        if ndigits is not None:
            raise Unsupported("round(SymFloat, ndigits)")
        return s.to_int(z3.RNE())

    def __trunc__(s):
        return s.to_int()

    def __floor__(s):
        return s.to_int(z3.RTN())

    def __ceil__(s):
        return s.to_int(z3.RTP())

    def __int__(s):
        raise Unsupported("builtin int() of a SymFloat: rebind the module's "
                          "`int` to sx.fp.shim_int")

    __index__ = __int__

    def __float__(s):
        raise Unsupported("builtin float() of a SymFloat: rebind the "
                          "module's `float` to sx.fp.shim_float")

    def _sx_evaluate(s, m):
        from .engine import _fp_to_float
        return _fp_to_float(m.eval(s.e, model_completion=True))

    def __repr__(s):
        return "SymFloat(%s)" % (z3.simplify(s.e),)

    __str__ = __repr__

    def __format__(s, spec):
        return "<symfloat>"


# ----------------------------------------------------------------------
class WideInt(object):
    """A Python int held in a 128-bit two's complement bit-vector.  + - * <<
    record a no-overflow side condition (checked at the end of the path)."""
    __slots__ = ("e",)

    def __init__(self, e):
        self.e = e

    @staticmethod
    def _c(o):
        if isinstance(o, WideInt):
            return o.e
        if isinstance(o, bool):
            o = int(o)
        if isinstance(o, int):
            if abs(o) >= CONST_LIMIT:
                raise Unsupported("integer constant beyond 2**99 meets a "
                                  "128-bit symbolic integer")
            return z3.BitVecVal(o, WW)
        if isinstance(o, SymBool):
            return z3.If(o.e, z3.BitVecVal(1, WW), z3.BitVecVal(0, WW))
        if isinstance(o, SymInt):
            raise Unsupported("WideInt combined with a SymInt")
        return None

    def _to_fp(s):
        # |value| < 2**127: always finite, rounded to nearest even as
        # CPython's int -> float
        return z3.fpSignedToFP(z3.RNE(), s.e, D)

    def _ar(s, o, f, ovf=(), swap=False, fl=None):
        if isinstance(o, (float, SymFloat)) and fl is not None:
            me = SymFloat(s._to_fp())
            return fl(o, me) if swap else fl(me, o)
        b = s._c(o)
        if b is None:
            return NotImplemented
        a = s.e
        if swap:
            a, b = b, a
        for g in ovf:
            _eng().side_condition(g(a, b), "128-bit overflow")
        return WideInt(f(a, b))

    _ADD = (lambda a, b: z3.BVAddNoOverflow(a, b, True),
            lambda a, b: z3.BVAddNoUnderflow(a, b))
    _SUB = (lambda a, b: z3.BVSubNoOverflow(a, b),
            lambda a, b: z3.BVSubNoUnderflow(a, b, True))
    _MUL = (lambda a, b: z3.BVMulNoOverflow(a, b, True),
            lambda a, b: z3.BVMulNoUnderflow(a, b))

    def __add__(s, o):
        return s._ar(o, lambda a, b: a + b, s._ADD, fl=lambda a, b: a + b)

    def __radd__(s, o):
        return s._ar(o, lambda a, b: a + b, s._ADD, True,
                     fl=lambda a, b: a + b)

    def __sub__(s, o):
        return s._ar(o, lambda a, b: a - b, s._SUB, fl=lambda a, b: a - b)

    def __rsub__(s, o):
        return s._ar(o, lambda a, b: a - b, s._SUB, True,
                     fl=lambda a, b: a - b)

    def __mul__(s, o):
        return s._ar(o, lambda a, b: a * b, s._MUL, fl=lambda a, b: a * b)

    def __rmul__(s, o):
        return s._ar(o, lambda a, b: a * b, s._MUL, True,
                     fl=lambda a, b: a * b)

    def __truediv__(s, o):
        if isinstance(o, (float, SymFloat)):
            return SymFloat(s._to_fp()) / o
        raise Unsupported("true division of symbolic integers")

    def __rtruediv__(s, o):
        if isinstance(o, (float, SymFloat)):
            return o / SymFloat(s._to_fp())
        raise Unsupported("true division of symbolic integers")

    def __neg__(s):
        return 0 - s

    def __pos__(s):
        return s

    def __abs__(s):
        _eng().side_condition(s.e != z3.BitVecVal(1 << (WW - 1), WW),
                              "128-bit overflow")
        return WideInt(z3.If(s.e < 0, -s.e, s.e))

    # floor division / modulo (Python floors, bvsdiv truncates)
    def _divmod(s, o, swap=False):
        b = s._c(o)
        if b is None:
            return None
        a = s.e
        if swap:
            a, b = b, a
        z = z3.simplify(b == 0)
        if z3.is_true(z) or (not z3.is_false(z) and _eng().branch(z)):
            raise ZeroDivisionError("integer division or modulo by zero")
        q = a / b
        r = z3.SRem(a, b)
        adj = z3.And(r != 0, (r < 0) != (b < 0))
        return (WideInt(z3.If(adj, q - 1, q)), WideInt(z3.If(adj, r + b, r)))

    def __floordiv__(s, o):
        r = s._divmod(o)
        return NotImplemented if r is None else r[0]

    def __rfloordiv__(s, o):
        r = s._divmod(o, True)
        return NotImplemented if r is None else r[0]

    def __mod__(s, o):
        r = s._divmod(o)
        return NotImplemented if r is None else r[1]

    def __rmod__(s, o):
        r = s._divmod(o, True)
        return NotImplemented if r is None else r[1]

    def __divmod__(s, o):
        r = s._divmod(o)
        return NotImplemented if r is None else r

    # bit operations: two's complement, sign extended like Python's
    def __and__(s, o): return s._ar(o, lambda a, b: a & b)
    __rand__ = __and__
    def __or__(s, o): return s._ar(o, lambda a, b: a | b)
    __ror__ = __or__
    def __xor__(s, o): return s._ar(o, lambda a, b: a ^ b)
    __rxor__ = __xor__

    def __invert__(s):
        return WideInt(~s.e)

    def __lshift__(s, o):
        if not isinstance(o, int) or isinstance(o, bool):
            raise Unsupported("symbolic shift amount")
        if o < 0:
            raise ValueError("negative shift count")
        if o >= WW - 1:
            raise Unsupported("shift beyond 128 bits")
        r = s.e << o
        _eng().side_condition((r >> o) == s.e, "128-bit overflow (<<)")
        return WideInt(r)

    def __rshift__(s, o):
        if not isinstance(o, int) or isinstance(o, bool):
            raise Unsupported("symbolic shift amount")
        if o < 0:
            raise ValueError("negative shift count")
        return WideInt(s.e >> min(o, WW - 1))       # arithmetic, as Python

    def __rlshift__(s, o):
        return o << int(s)

    def __rrshift__(s, o):
        return o >> int(s)

    def _cmp(s, o, f):
        if isinstance(o, (float, SymFloat)):
            raise Unsupported("symbolic integer compared with a float")
        b = s._c(o)
        if b is None:
            return NotImplemented
        return SymBool(f(s.e, b))

    def __lt__(s, o): return s._cmp(o, lambda a, b: a < b)
    def __le__(s, o): return s._cmp(o, lambda a, b: a <= b)
    def __gt__(s, o): return s._cmp(o, lambda a, b: a > b)
    def __ge__(s, o): return s._cmp(o, lambda a, b: a >= b)
    def __eq__(s, o): return s._cmp(o, lambda a, b: a == b)
    def __ne__(s, o): return s._cmp(o, lambda a, b: a != b)

    def __hash__(s):
        return 0x515c

    def __bool__(s):
        return _eng().branch(s.e != 0)

    def __index__(s):
        return _eng().concretise(s.e)

    __int__ = __index__

    def __float__(s):
        raise Unsupported("builtin float() of a WideInt: rebind the module's "
                          "`float` to sx.fp.shim_float")

    def __round__(s, n=None):
        return s

    def __trunc__(s):
        return s

    __floor__ = __ceil__ = __trunc__

    def bit_length(s):
        return abs(int(s)).bit_length()

    def _sx_evaluate(s, m):
        return m.eval(s.e, model_completion=True).as_signed_long()

    def __repr__(s):
        return "WideInt(%s)" % (z3.simplify(s.e),)

    __str__ = __repr__

    def __format__(s, spec):
        return "<wideint>"


def wide(v):
    """z3 128-bit term of a WideInt or a plain int."""
    if isinstance(v, WideInt):
        return v.e
    if isinstance(v, bool) or not isinstance(v, int):
        raise Unsupported("not an integer: %r" % (type(v).__name__,))
    if abs(v) >= (1 << (WW - 1)):
        raise Unsupported("integer beyond 128 bits")
    return z3.BitVecVal(v, WW)


# ----------------------------------------------------------------------
# Inputs
# ----------------------------------------------------------------------
def sym_float(ctx, name, finite=True):
    """A double input.  NaN and the infinities are excluded unless
    finite=False.  In concrete mode: the Python float of the replayed
    model."""
    c = ctx._input(name, D, "fp")
    if not ctx.symbolic:
        c = float(c)
        if finite:
            ctx.assume(math.isfinite(c))
        return c
    if finite:
        ctx.assume(z3.Not(z3.Or(z3.fpIsNaN(c), z3.fpIsInf(c))))
    return SymFloat(c)


def sym_wide_int(ctx, name, lo, hi):
    """An integer input in [lo, hi] (|bounds| < 2**99)."""
    c = ctx._input(name, z3.BitVecSort(WW), "bv")
    if not ctx.symbolic:
        ctx.assume(lo <= c <= hi)
        return c
    ctx.assume(z3.And(c >= z3.BitVecVal(lo, WW), c <= z3.BitVecVal(hi, WW)))
    return WideInt(c)


# ----------------------------------------------------------------------
# What the module under test's `int`, `float`, `np` are rebound to
# ----------------------------------------------------------------------
_int, _float, _round = int, float, round


def shim_int(x=0, *a):
    if not a:
        if isinstance(x, SymFloat):
            return x.to_int()
        if isinstance(x, WideInt):
            return x
    return _int(x, *a)


def shim_float(x=0.0):
    if isinstance(x, WideInt):
        return SymFloat(x._to_fp())
    if isinstance(x, SymFloat):
        return x
    return _float(x)


class NumpyShim(object):
    """Stands in for a module's `np`: `clip` on a SymFloat scalar is modelled
    (float64 loop of NumPy's clip ufunc: bounds converted to double, then
    `x > lo ? x : lo`, `x < hi ? x : hi`, NaN propagated); everything else,
    and clip on ordinary values, is the real NumPy."""
    def __init__(self, real):
        self.__dict__["_np"] = real

    def __getattr__(self, name):
        return getattr(self._np, name)

    def clip(self, a, a_min=None, a_max=None, *args, **kw):
        sym = [isinstance(x, (SymFloat, WideInt)) for x in (a, a_min, a_max)]
        if not any(sym):
            return self._np.clip(a, a_min, a_max, *args, **kw)
        if args or kw or not isinstance(a, SymFloat):
            raise Unsupported("np.clip on proxies in this form")
        x = a.e
        r = x
        if a_min is not None:
            lo = SymFloat._c(a_min)
            if lo is None:
                raise Unsupported("np.clip bound %r" % (a_min,))
            r = z3.If(z3.fpGT(r, lo), r, lo)
        if a_max is not None:
            hi = SymFloat._c(a_max)
            if hi is None:
                raise Unsupported("np.clip bound %r" % (a_max,))
            r = z3.If(z3.fpLT(r, hi), r, hi)
        return SymFloat(z3.If(z3.fpIsNaN(x), x, r))


class rebound(object):
    """Context manager: rebind module attributes, restore on exit."""
    _MISSING = object()

    def __init__(self, mod, **names):
        self.mod = mod
        self.names = names

    def __enter__(self):
        self.saved = {}
        for k, v in self.names.items():
            self.saved[k] = self.mod.__dict__.get(k, self._MISSING)
            setattr(self.mod, k, v)
        return self

    def __exit__(self, *exc):
        for k, v in self.saved.items():
            if v is self._MISSING:
                try:
                    delattr(self.mod, k)
                except AttributeError:
                    pass
            else:
                setattr(self.mod, k, v)
        return False


# ----------------------------------------------------------------------
# Solver
# ----------------------------------------------------------------------
class OneShotSolver(object):
    """The part of z3.Solver the engine uses, deciding every check from
    scratch with the SAT-based floating-point pipeline."""
    def __init__(self, timeout_ms):
        self.timeout_ms = timeout_ms
        self.cs = []
        self._last = None

    def set(self, *a, **k):
        if a and a[0] == "timeout":
            self.timeout_ms = a[1]

    def add(self, *cs):
        self.cs.extend(cs)

    def assertions(self):
        return list(self.cs)

    def _run(self, s, extra):
        s.set("timeout", self.timeout_ms)
        s.add(*self.cs)
        s.add(*extra)
        self._last = s
        return s.check()

    def check(self, *assumptions):
        r = self._run(z3.Tactic("qffp").solver(), assumptions)
        if r == z3.unknown and "timeout" not in self.reason_unknown() \
                and "canceled" not in self.reason_unknown():
            # outside the tactic's fragment: let z3 choose
            r = self._run(z3.Solver(), assumptions)
        return r

    def model(self):
        return self._last.model()

    def reason_unknown(self):
        return self._last.reason_unknown()


def install_fp_solver(ctx):
    """Call first thing in a harness that uses SymFloat."""
    if ctx.symbolic:
        if ctx.solver.assertions():
            raise Inconclusive("install_fp_solver after constraints exist")
        ctx.solver = OneShotSolver(ctx.timeout_ms)
