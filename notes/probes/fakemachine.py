"""Throw-away concrete fake SpiNNaker machine (probe for C09/C10/C14)."""
import struct, collections, random, types
from rig.machine_control import consts, machine_controller as mcm
from rig.machine_control.consts import SCPCommands as C, AppState
from rig.machine_control.packets import SCPPacket

def region_selects(region, x, y):
    level = (region >> 16) & 3
    shift = 6 - 2*level
    m = 0xff & (0xffff ^ ((4 << shift) - 1))
    bx = (region >> 24) & m; by = (region >> 16) & m & 0xfc
    by = (region >> 16) & 0xff & m
    size = 4 << shift
    if not (bx <= x < bx + size and by <= y < by + size): return False
    s = ((x >> shift) & 3) + 4*((y >> shift) & 3)
    return bool(region & (1 << s))

class Chip:
    def __init__(self, ncores=18):
        self.mem = {}
        self.state = [AppState.run] + [AppState.idle]*(ncores-1)
        self.app = [0]*ncores
        self.image = [None]*ncores
        self.router = {}
        self.rtr_next = 1

class Machine:
    def __init__(self, w, h, structs, buf=256):
        self.w, self.h = w, h
        self.chips = {(x, y): Chip() for x in range(w) for y in range(h)}
        self.structs = structs; self.buf = buf
        self.ff = None
        self.log = []
        self.miss = lambda attempt, chip: False
        self.attempt = 0
        self.sdram_sys = 0x60000000; self.vcpu_base = 0x70000000
    def chip(self, x, y):
        if (x, y) == (255, 255): return self.chips[(0, 0)]
        return self.chips[(x, y)]
    def rd(self, x, y, addr, n):
        sv = self.structs[b"sv"]; vc = self.structs[b"vcpu"]
        out = bytearray()
        ch = self.chip(x, y)
        for a in range(addr, addr + n):
            # synthesise sv fields
            def field(st, base, name, val):
                f = st[name]; sz = struct.calcsize(b"<" + f.pack_chars)
                if base + f.offset <= a < base + f.offset + sz:
                    return struct.pack(b"<" + f.pack_chars, val)[a - base - f.offset]
            v = field(sv, sv.base, b"sdram_sys", self.sdram_sys)
            if v is None: v = field(sv, sv.base, b"vcpu_base", self.vcpu_base)
            if v is None and self.vcpu_base <= a < self.vcpu_base + vc.size * 18:
                p = (a - self.vcpu_base) // vc.size
                v = field(vc, self.vcpu_base + vc.size * p, b"cpu_state", int(ch.state[p]))
                if v is None: v = 0
            if v is None: v = ch.mem.get(a, 0)
            out.append(v)
        return bytes(out)
    def cmd(self, x, y, p, cmd, a1, a2, a3, data):
        self.log.append((x, y, p, int(cmd), a1, a2, a3, bytes(data)))
        ch = self.chip(x, y)
        if cmd == C.sver:
            return ((0 << 24) | (0 << 16) | (0 << 8) | p, (0xffff << 16) | self.buf, 0, b"SC&MP/SpiNNaker\x003.0.0\x00")
        if cmd == C.read:
            return (0, 0, 0, self.rd(x, y, a1, a2))
        if cmd == C.write:
            assert len(data) == a2 <= self.buf
            for i, b in enumerate(data): ch.mem[a1 + i] = b
            return (0, 0, 0, b"")
        if cmd == C.alloc_free:
            op = a1 & 0xff; app = a1 >> 8
            if op == consts.AllocOperations.alloc_rtr:
                base = ch.rtr_next
                if base + a2 > 1024: return (0, 0, 0, b"")
                ch.rtr_next += a2; return (base, 0, 0, b"")
            raise NotImplementedError(op)
        if cmd == C.router:
            count = a1 >> 16; app = (a1 >> 8) & 0xff; op = a1 & 0xff
            assert op == consts.RouterOperations.load
            raw = self.rd(x, y, a2, 16 * count)
            for i in range(count):
                nxt, free, route, key, mask = struct.unpack("<2H3I", raw[16*i:16*i+16])
                assert nxt == i
                ch.router[a3 + i] = (key, mask, route, app)
            return (0, 0, 0, b"")
        if cmd == C.nearest_neighbour_packet:
            op = a1 >> 24
            if op == consts.NNCommands.flood_fill_start:
                pid = (a1 >> 16) & 0xff; nb = (a1 >> 8) & 0xff
                assert self.ff is None
                self.ff = dict(pid=pid, n=nb, sel=[], blocks={}, state="sel")
            elif op == consts.NNCommands.flood_fill_core_select:
                assert self.ff and self.ff["state"] == "sel"
                key = (a2, a1 & 0x3ffff)
                if self.ff["sel"]: assert key > self.ff["sel"][-1], "ffcs order"
                self.ff["sel"].append(key)
            elif op == consts.NNCommands.flood_fill_end:
                ff = self.ff; self.ff = None
                assert (a1 & 0xff) == ff["pid"]
                app = a2 >> 24; flags = (a2 >> 18) & 0x3f
                assert sorted(ff["blocks"]) == list(range(ff["n"])), (sorted(ff["blocks"]), ff["n"])
                img = b"".join(ff["blocks"][i] for i in range(ff["n"]))
                for (cx, cy), c in self.chips.items():
                    if self.miss(self.attempt, (cx, cy)): continue
                    mask = 0
                    for region, cm in ff["sel"]:
                        if region_selects(region, cx, cy): mask |= cm
                    for core in range(18):
                        if mask & (1 << core):
                            c.image[core] = img; c.app[core] = app
                            c.state[core] = AppState.wait if flags & 1 else AppState.run
                self.attempt += 1
            return (0, 0, 0, b"")
        if cmd == C.flood_fill_data:
            ff = self.ff; ff["state"] = "data"
            assert (a1 & 0xff) == ff["pid"]
            blk = a2 >> 16; size = ((a2 >> 8) & 0xff) + 1
            assert len(data) == 4 * size <= self.buf, (len(data), size)
            assert blk == len(ff["blocks"])
            assert a3 == self.sdram_sys + sum(len(b) for b in ff["blocks"].values())
            ff["blocks"][blk] = bytes(data)
            return (0, 0, 0, b"")
        if cmd == C.signal:
            if a1 == consts.MessageType.peer_to_peer:   # count
                state = (a2 >> 16) & 0xf; app = a2 & 0xff
                n = sum(1 for c in self.chips.values() for i in range(18) if c.app[i] == app and c.state[i] == state and i != 0)
                return (n, 0, 0, b"")
            sig = (a2 >> 16) & 0xff; app = a2 & 0xff
            for c in self.chips.values():
                for i in range(1, 18):
                    if c.app[i] == app and c.image[i] is not None:
                        if sig == consts.AppSignal.start and c.state[i] == AppState.wait: c.state[i] = AppState.run
                        if sig == consts.AppSignal.stop: c.state[i] = AppState.idle; c.image[i] = None; c.app[i] = 0
            return (0, 0, 0, b"")
        if cmd == C.fill:
            for i in range(a3): ch.mem[a1 + i] = (a2 >> (8 * (i % 4))) & 0xff
            return (0, 0, 0, b"")
        raise NotImplementedError(cmd)

class FakeConn:
    machine = None
    def __init__(self, host, port=0, n_tries=5, timeout=0.5): self.m = FakeConn.machine
    def send_scp(self, buffer_size, x, y, p, cmd, arg1=0, arg2=0, arg3=0, data=b'', expected_args=3, timeout=0.0):
        a1, a2, a3, d = self.m.cmd(x, y, p, cmd, arg1, arg2, arg3, data)
        pk = SCPPacket(cmd_rc=0x80, arg1=a1, arg2=a2, arg3=a3, data=d, dest_x=0, dest_y=0, dest_cpu=0, dest_port=0)
        return SCPPacket.from_bytestring(pk.bytestring, n_args=expected_args)
    def read(self, buffer_size, window_size, x, y, p, address, length_bytes):
        return self.m.rd(x, y, address, length_bytes)
    def write(self, buffer_size, window_size, x, y, p, address, data):
        ch = self.m.chip(x, y)
        for i, b in enumerate(data): ch.mem[address + i] = b
    def close(self): pass
