"""C11 -- hexagonal mesh / torus path functions return true shortest paths.

Runs the real rig.geometry functions (minimise_xyz, shortest_mesh_path_length,
shortest_mesh_path, shortest_torus_path_length, shortest_torus_path, to_xyz,
concentric_hexagons), rig.place_and_route.route.utils.longest_dimension_first
and rig.links.Links on symbolic, unbounded integers.  Torus width and height
are concrete per unit (one unit per size).  The random tie-breaks are symbolic: `random` in
rig.geometry and in route.utils is rebound to a stub that draws from the
engine, so every outcome of every tie-break is on some explored path.

Oracle.  Graph distance in the hexagonal mesh (torus) is the word length in
the Cayley graph of Z^2 (Z_w x Z_h) with generators +-(1,0), +-(0,1), +-(1,1):
(dx, dy) is reached by a east, b north and c north-east net steps iff
a + c = dx (mod w) and b + c = dy (mod h); the distance is the least
|a|+|b|+|c|.  The harness uses a closed form for that minimum
(`mesh_dist`, `torus_dist`) and does not trust it: the "lemma" part of every
unit has the solver prove, for that width and height and for all a, b, c, k1,
k2, x, y (unbounded integers), that no word is shorter than the closed form
and that an explicit word attains it.  In concrete mode (replays, per-path
validation) the closed form is additionally compared with a breadth-first
search of the real graph.

Informational only (thorough tier, `extra_evidence`, never part of the
verdict): the torus unit is also run with width and height themselves symbolic
(k*w is then non-linear, the solver is not complete for it); the outcome is
recorded in the evidence file under "symbolic_width_height".
"""
import time

from sx.runner import Unit
from sx.proxies import sand, sor, snot, simplies, ite, smin, smax, same_truth

PROPERTY = "C11"

_Q_MAX, _T_MAX = 8, 24

META = {
    "bounds": "links_between: every ordered pair of chips of the 1x1, 1x2, "
              "2x1, 2x2, 2x3, 3x2, 3x3 tori (thorough: also 1x3, 3x1, 4x2, "
              "2x4, 4x4), the set of dead links symbolic (one solver boolean "
              "per link looked at, at most two dead).  "
              "Mesh functions, minimise_xyz, to_xyz: all six source / "
              "destination components unbounded symbolic integers (every "
              "three-axis representation, negatives included).  Torus "
              "functions: the same six unbounded symbolic components, every "
              "width x height in 1..8 x 1..8 plus the elongated 16x3, 3x16, "
              "22x4, 5x24, 24x1, 2x19 (quick) / 1..24 x 1..24 (thorough), "
              "1xN and 2xN included, one unit per size; every "
              "outcome of random.random() (a symbolic real in [0,1), ties "
              "included) and random.randint (a symbolic integer in its "
              "range).  longest_dimension_first: every vector with components "
              "in -3..3 (quick) / -4..4 (thorough) per axis (enumerated: "
              "they are the function's loop counts), start an "
              "unbounded symbolic (x, y), all tie-break outcomes, on no-wrap, "
              "half-wrapped and torus topologies of the sizes named in the "
              "unit names.  Links.from_vector: each vector component either "
              "one of -1, 0, 1 or an unbounded symbolic integer of magnitude "
              "> 1; the six links' to_vector/opposite enumerated.  "
              "concentric_hexagons: radius 0..6 (quick) / 0..10 (thorough), "
              "start an unbounded symbolic (x, y) or the default, each in a "
              "freshly re-executed rig.geometry.  concentric_hexagons call "
              "histories (unit 'hexagons history'): a generator A of radius "
              "1..3 (quick) / 1..4 (thorough) advanced by k items -- quick: "
              "one k per position class (not started, centre only, first / "
              "middle / last-but-one / last item of every ring), thorough: "
              "every k -- then closed, or left suspended, or finished after "
              "the later call (interleaving); the later full enumeration B "
              "has every radius 0..3 (0..4) and another unbounded symbolic "
              "start; B (and A when finished) must be the exact set, once "
              "each, nearest ring first.  Each history starts from a "
              "re-executed rig.geometry module.",
    "stubs": ["`random` in rig.geometry and rig.place_and_route.route.utils "
              "is rebound to a stub: random() returns a fresh symbolic real "
              "r with 0 <= r < 1, randint(a, b) a fresh symbolic integer in "
              "[a, b], choice/shuffle/sample enumerate with ctx.choose"],
    "assumptions": [
        "graph distance in the hexagonal mesh/torus = least |a|+|b|+|c| over "
        "net step counts (a east, b north, c north-east) that reach the "
        "target: the group is abelian and a shortest word never uses a "
        "generator together with its inverse (paper argument; in concrete "
        "mode the closed form is also compared with a breadth-first search)",
        "reference link geometry (independent of rig's tables): east (1,0), "
        "north_east (1,1), north (0,1), west (-1,0), south_west (-1,-1), "
        "south (0,-1), numbered 0..5 in that order; a vector (x, y, z) stands "
        "for x east, y north and z south-west steps",
        "the state of a fresh process is restored by importlib.reload("
        "rig.geometry) at the start of every hexagon path (whatever "
        "module-level state exists, by any name, is re-created); state kept "
        "outside rig.geometry would not be reset",
        "Links.from_vector on a wrapped component (|v| > 1) means one step "
        "against the sign of v; for the two 2xN special cases (1,-1) and "
        "(-1,1) any link congruent to the vector modulo 2 in both "
        "coordinates is accepted; (0,0) is outside the function's domain",
    ],
    "outside_claim": [
        "torus sizes other than those listed under bounds (quick) / width "
        "or height > 24 (thorough)",
        "longest_dimension_first vectors longer than 3 (quick) / 4 "
        "(thorough) per axis, and topologies other than the listed sizes",
        "concentric_hexagons radius > 6 (quick) / > 10 (thorough) and "
        "negative radii",
        "concentric_hexagons call histories with more than two generators, "
        "radii above 3 (quick) / 4 (thorough) in a history, generators "
        "advanced from several threads, and histories of the other "
        "functions (they are called once per path in a process that has "
        "called them before with other arguments; no reset is made for "
        "them)",
        "any width and height at once: the run with symbolic width and "
        "height (non-linear) is informational, see coverage."
        "symbolic_width_height in the thorough evidence; it is not part of "
        "the claim",
        "the probability distribution of the random choices (only the set "
        "of possible outcomes is covered)",
    ],
}

# Reference geometry, independent of rig.links' tables.
REF_VEC = {0: (1, 0), 1: (1, 1), 2: (0, 1), 3: (-1, 0), 4: (-1, -1),
           5: (0, -1)}
REF_NAME = {"east": 0, "north_east": 1, "north": 2, "west": 3,
            "south_west": 4, "south": 5}
# axis of a three-axis vector -> (link for a positive, for a negative step)
AXIS_LINKS = {0: (0, 3), 1: (2, 5), 2: (4, 1)}
LINK_AXIS = {0: 0, 3: 0, 2: 1, 5: 1, 4: 2, 1: 2}


# ----------------------------------------------------------------------
# The oracle's closed forms (non-forking; work on proxies and plain ints)
# ----------------------------------------------------------------------
def mesh_dist(p, q):
    """Least |a|+|b|+|c| with a + c = p, b + c = q (claimed; see lemma)."""
    same = sor(sand(p >= 0, q >= 0), sand(p <= 0, q <= 0))
    return ite(same, smax(abs(p), abs(q)), abs(p) + abs(q))


def mesh_witness(p, q):
    """A word (a, b, c) that reaches (p, q) with mesh_dist(p, q) letters."""
    c = ite(sand(p >= 0, q >= 0), smin(p, q),
            ite(sand(p <= 0, q <= 0), smax(p, q), 0))
    return p - c, q - c, c


def torus_images(x, y, w, h):
    return [(x, y), (x - w, y), (x, y - h), (x - w, y - h)]


def torus_dist(x, y, w, h):
    """Least word length reaching (x, y) in Z_w x Z_h for 0 <= x < w,
    0 <= y < h (claimed; see lemma)."""
    ds = [mesh_dist(p, q) for p, q in torus_images(x, y, w, h)]
    return smin(smin(ds[0], ds[1]), smin(ds[2], ds[3]))


def wordlen(v):
    return abs(v[0]) + abs(v[1]) + abs(v[2])


def cong(a, b, m):
    """a = b (mod m); m None: no wrap-around, plain equality."""
    if m is None:
        return a == b
    return (a - b) % m == 0


# ----------------------------------------------------------------------
# Concrete-mode references (replays and per-path validation only)
# ----------------------------------------------------------------------
_BFS = {}


def bfs_torus(w, h):
    key = (w, h)
    if key not in _BFS:
        dist = {(0, 0): 0}
        todo = [(0, 0)]
        while todo:
            nxt = []
            for (x, y) in todo:
                for dx, dy in REF_VEC.values():
                    n = ((x + dx) % w, (y + dy) % h)
                    if n not in dist:
                        dist[n] = dist[(x, y)] + 1
                        nxt.append(n)
            todo = nxt
        _BFS[key] = dist
    return _BFS[key]


def brute_mesh(p, q):
    """min over c of |p-c|+|q-c|+|c|, by bounded search; None if too far."""
    bound = abs(p) + abs(q) + 1
    if bound > 5000:
        return None
    return min(abs(p - c) + abs(q - c) + abs(c)
               for c in range(-bound, bound + 1))


def check_concrete_torus(ctx, x, y, w, h, got, label):
    if not ctx.symbolic and w * h <= 4096:
        ctx.prove(bfs_torus(w, h)[(x, y)] == got, label,
                  ("breadth-first search", x, y, w, h,
                   bfs_torus(w, h)[(x, y)], got))


def check_concrete_mesh(ctx, p, q, got, label):
    if not ctx.symbolic:
        ref = brute_mesh(p, q)
        if ref is not None:
            ctx.prove(ref == got, label, ("bounded search", p, q, ref, got))


# ----------------------------------------------------------------------
# random stub
# ----------------------------------------------------------------------
class SymRandom(object):
    def __init__(self, ctx):
        self.ctx = ctx
        self.calls = {"random": 0, "randint": 0}

    def random(self):
        self.calls["random"] += 1
        r = self.ctx.real("random", 0)
        self.ctx.assume(r < 1)
        return r

    def randint(self, a, b):
        self.calls["randint"] += 1
        r = self.ctx.int("randint")
        self.ctx.assume(sand(a <= r, r <= b))
        return r

    def randrange(self, a, b=None):
        if b is None:
            a, b = 0, a
        return self.randint(a, b - 1)

    def choice(self, seq):
        seq = list(seq)
        return seq[self.ctx.choose(len(seq))]

    def shuffle(self, lst):
        for i in reversed(range(1, len(lst))):
            j = self.ctx.choose(i + 1)
            lst[i], lst[j] = lst[j], lst[i]

    def sample(self, population, k):
        pool = list(population)
        out = []
        for _ in range(k):
            out.append(pool.pop(self.ctx.choose(len(pool))))
        return out


class patched_random(object):
    def __init__(self, ctx):
        import importlib
        self.stub = SymRandom(ctx)
        # (rig.place_and_route.route is rebound to a function by the
        # package, so `import ... as` cannot name the module)
        self.mods = (importlib.import_module("rig.geometry"),
                     importlib.import_module(
                         "rig.place_and_route.route.utils"))

    def __enter__(self):
        g, u = self.mods
        self.saved = (g.random, u.random)
        g.random = u.random = self.stub
        return self.stub

    def __exit__(self, *exc):
        for m, r in zip(self.mods, self.saved):
            m.random = r
        return False


def _call(ctx, what, fn, *args, **kw):
    """Run rig code; an exception is an outcome (and a violation)."""
    patch = patched_random(ctx)
    try:
        with patch as rnd:
            return True, fn(*args, **kw), rnd
    except Exception as e:
        ctx.observe(what, type(e).__name__)
        ctx.prove(False, "C11:%s-raised" % what, repr(e))
        return False, None, None


def _six(ctx):
    s = tuple(ctx.int("s%d" % i) for i in range(3))
    d = tuple(ctx.int("d%d" % i) for i in range(3))
    return s, d


# ----------------------------------------------------------------------
# Lemmas: the closed forms are the quantified definition
# ----------------------------------------------------------------------
def lemma_mesh(ctx):
    """For all p, q, a, b, c: a + c = p and b + c = q imply |a|+|b|+|c| >=
    mesh_dist(p, q); and mesh_witness(p, q) reaches (p, q) in exactly
    mesh_dist(p, q) steps."""
    p, q = ctx.int("p"), ctx.int("q")
    a, b, c = ctx.int("a"), ctx.int("b"), ctx.int("c")
    d = mesh_dist(p, q)
    ctx.observe(d)
    ctx.witness("lemma")
    ctx.prove(simplies(sand(a + c == p, b + c == q),
                       abs(a) + abs(b) + abs(c) >= d),
              "C11:lemma-mesh-closed-form-not-a-lower-bound", (p, q, a, b, c))
    wa, wb, wc = mesh_witness(p, q)
    ctx.prove(sand(wa + wc == p, wb + wc == q,
                   abs(wa) + abs(wb) + abs(wc) == d),
              "C11:lemma-mesh-closed-form-not-attained", (p, q, wa, wb, wc))
    check_concrete_mesh(ctx, p, q, d, "C11:lemma-mesh-closed-form-vs-search")


def lemma_torus(ctx, w, h):
    """For this w, h and all 0 <= x < w, 0 <= y < h, a, b, c, k1, k2:
    a + c = x + k1 w and b + c = y + k2 h imply |a|+|b|+|c| >= torus_dist;
    and torus_dist is the length of an explicit word reaching (x, y)."""
    x, y = ctx.int("x", 0), ctx.int("y", 0)
    ctx.assume(sand(x < w, y < h))
    a, b, c = ctx.int("a"), ctx.int("b"), ctx.int("c")
    k1, k2 = ctx.int("k1"), ctx.int("k2")
    d = torus_dist(x, y, w, h)
    ctx.observe(d)
    ctx.witness("lemma")
    ctx.prove(simplies(sand(a + c == x + k1 * w, b + c == y + k2 * h),
                       abs(a) + abs(b) + abs(c) >= d),
              "C11:lemma-torus-closed-form-not-a-lower-bound",
              (w, h, x, y, a, b, c, k1, k2))
    attained = []
    for p, q in torus_images(x, y, w, h):
        wa, wb, wc = mesh_witness(p, q)
        # the witness is a word for this image, hence for (x, y) on the torus
        ctx.prove(sand(wa + wc == p, wb + wc == q, cong(p, x, w),
                       cong(q, y, h)),
                  "C11:lemma-torus-witness-misses", (w, h, x, y, p, q))
        attained.append(abs(wa) + abs(wb) + abs(wc) == d)
    ctx.prove(sor(*attained), "C11:lemma-torus-closed-form-not-attained",
              (w, h, x, y, d))
    check_concrete_torus(ctx, x, y, w, h, d,
                         "C11:lemma-torus-closed-form-vs-bfs")


# ----------------------------------------------------------------------
# Mesh functions
# ----------------------------------------------------------------------
def h_mesh(ctx):
    from rig.geometry import (minimise_xyz, shortest_mesh_path_length,
                              shortest_mesh_path, to_xyz)
    part = ctx.pick(["lemma", "minimise", "length", "path", "to_xyz"])
    if part == "lemma":
        return lemma_mesh(ctx)
    ctx.witness(part)
    if part == "minimise":
        v = tuple(ctx.int("v%d" % i) for i in range(3))
        ok, r, _ = _call(ctx, "minimise_xyz", minimise_xyz, v)
        if not ok:
            return
        ctx.observe(r)
        p, q = v[0] - v[2], v[1] - v[2]
        ctx.prove(sand(r[0] - r[2] == p, r[1] - r[2] == q),
                  "C11:minimise-xyz-moves-the-point", (v, r))
        ctx.prove(wordlen(r) == mesh_dist(p, q),
                  "C11:minimise-xyz-not-minimal", (v, r, mesh_dist(p, q)))
        check_concrete_mesh(ctx, p, q, wordlen(r),
                            "C11:minimise-xyz-not-minimal")
        return
    if part == "to_xyz":
        x, y = ctx.int("x"), ctx.int("y")
        ok, r, _ = _call(ctx, "to_xyz", to_xyz, (x, y))
        if not ok:
            return
        ctx.observe(r)
        ctx.prove(len(r) == 3, "C11:to-xyz-shape")
        ctx.prove(sand(r[0] - r[2] == x, r[1] - r[2] == y, r[2] == 0),
                  "C11:to-xyz-moves-the-point", ((x, y), r))
        return
    s, d = _six(ctx)
    p = (d[0] - d[2]) - (s[0] - s[2])
    q = (d[1] - d[2]) - (s[1] - s[2])
    ref = mesh_dist(p, q)
    if part == "length":
        ok, n, _ = _call(ctx, "shortest_mesh_path_length",
                         shortest_mesh_path_length, s, d)
        if not ok:
            return
        ctx.observe(n)
        ctx.prove(n == ref, "C11:mesh-length-not-graph-distance",
                  (s, d, n, ref))
        check_concrete_mesh(ctx, p, q, n,
                            "C11:mesh-length-not-graph-distance")
    else:
        ok, v, _ = _call(ctx, "shortest_mesh_path", shortest_mesh_path, s, d)
        if not ok:
            return
        ctx.observe(v)
        ctx.prove(len(v) == 3, "C11:mesh-path-shape")
        ctx.prove(sand(v[0] - v[2] == p, v[1] - v[2] == q),
                  "C11:mesh-path-misses-destination", (s, d, v))
        ctx.prove(wordlen(v) == ref, "C11:mesh-path-not-shortest",
                  (s, d, v, ref))
        check_concrete_mesh(ctx, p, q, wordlen(v),
                            "C11:mesh-path-not-shortest")


# ----------------------------------------------------------------------
# Torus functions
# ----------------------------------------------------------------------
def h_torus(ctx, w, h, parts=("lemma", "length", "vector")):
    from rig.geometry import shortest_torus_path_length, shortest_torus_path
    part = ctx.pick(parts)
    if part == "lemma":
        return lemma_torus(ctx, w, h)
    ctx.witness(part)
    s, d = _six(ctx)
    # the destination as seen from the source, reduced into the torus
    x = ((d[0] - d[2]) - (s[0] - s[2])) % w
    y = ((d[1] - d[2]) - (s[1] - s[2])) % h
    ref = torus_dist(x, y, w, h)
    if part == "length":
        # (all inputs are created before the first proof obligation, so that
        # a counterexample file also replays on a repaired tree)
        a, b, c = ctx.int("a"), ctx.int("b"), ctx.int("c")
        k1, k2 = ctx.int("k1"), ctx.int("k2")
        ok, n, _ = _call(ctx, "shortest_torus_path_length",
                         shortest_torus_path_length, s, d, w, h)
        if not ok:
            return
        ctx.observe(n)
        ctx.prove(n == ref, "C11:torus-length-not-graph-distance",
                  (w, h, s, d, n, ref))
        check_concrete_torus(ctx, x, y, w, h, n,
                             "C11:torus-length-not-graph-distance")
        # Minimality once more in its literal, quantified form (no closed
        # form involved): no word a, b, c reaching any wrap image (k1, k2
        # unbounded) of the destination is shorter than the reported length.
        ctx.prove(simplies(sand(a + c == x + k1 * w, b + c == y + k2 * h),
                           abs(a) + abs(b) + abs(c) >= n),
                  "C11:torus-length-longer-than-a-walk",
                  (w, h, s, d, n, (a, b, c)))
    else:
        ok, v, rnd = _call(ctx, "shortest_torus_path", shortest_torus_path,
                           s, d, w, h)
        if not ok:
            return
        ctx.observe(v)
        if rnd.calls["randint"]:
            ctx.witness("spiral")
        ctx.prove(len(v) == 3, "C11:torus-path-shape")
        # walking v from the source ends on the destination chip
        ctx.prove(sand(cong((s[0] - s[2]) + v[0] - v[2], d[0] - d[2], w),
                       cong((s[1] - s[2]) + v[1] - v[2], d[1] - d[2], h)),
                  "C11:torus-path-misses-destination", (w, h, s, d, v))
        ctx.prove(wordlen(v) == ref, "C11:torus-path-not-shortest",
                  (w, h, s, d, v, ref))
        check_concrete_torus(ctx, x, y, w, h, wordlen(v),
                             "C11:torus-path-not-shortest")


# ----------------------------------------------------------------------
# longest_dimension_first
# ----------------------------------------------------------------------
def h_walk(ctx, w, h, mag):
    from rig.place_and_route.route.utils import longest_dimension_first
    from rig.links import Links
    # The components are loop counts inside the function: enumerated
    # structurally.  (Not ctx.int + range(): with the engine revision this
    # was written against, concretisation took its candidate values from
    # solver models, which a prefix replay did not reproduce -- a probe lost
    # the vector (0, 2, 1) that way.  ctx.pick does not depend on models.)
    v = tuple(ctx.pick(range(-mag, mag + 1)) for i in range(3))
    x0, y0 = ctx.int("x0"), ctx.int("y0")
    ok, out, _ = _call(ctx, "longest_dimension_first",
                       longest_dimension_first, v, (x0, y0), w, h)
    if not ok:
        return
    ctx.observe([(int(l), px, py) for l, (px, py) in out])
    ctx.witness("walked" if out else "empty")
    ctx.prove(len(out) == wordlen(v), "C11:walk-wrong-number-of-hops",
              (v, len(out)))
    px, py = x0, y0
    runs = []
    for l, (qx, qy) in out:
        ctx.prove(isinstance(l, Links), "C11:walk-label-type")
        lx, ly = REF_VEC[int(l)]
        # adjacent, and by the link the step is labelled with
        ctx.prove(sand(cong(px + lx, qx, w), cong(py + ly, qy, h)),
                  "C11:walk-step-is-not-the-labelled-link",
                  (w, h, v, (px, py), int(l), (qx, qy)))
        inside = []
        if w is not None:
            inside += [0 <= qx, qx < w]
        if h is not None:
            inside += [0 <= qy, qy < h]
        if inside:
            ctx.prove(sand(*inside), "C11:walk-leaves-the-machine",
                      (w, h, (qx, qy)))
        px, py = qx, qy
        if runs and runs[-1][0] == int(l):
            runs[-1][1] += 1
        else:
            runs.append([int(l), 1])
    ctx.prove(sand(cong(px, x0 + v[0] - v[2], w),
                   cong(py, y0 + v[1] - v[2], h)),
              "C11:walk-misses-destination", (w, h, v, (x0, y0), (px, py)))
    # dimension by dimension, longest first, in the direction of the sign
    ctx.prove(len(runs) <= 3 and
              len(set(LINK_AXIS[l] for l, _ in runs)) == len(runs),
              "C11:walk-dimension-revisited", runs)
    for i, (l, n) in enumerate(runs):
        m = v[LINK_AXIS[l]]
        pos, neg = AXIS_LINKS[LINK_AXIS[l]]
        ctx.prove(sand(n == abs(m), simplies(m > 0, l == pos),
                       simplies(m < 0, l == neg)),
                  "C11:walk-wrong-direction-or-count", (v, runs))
        if i:
            ctx.prove(runs[i - 1][1] >= n, "C11:walk-not-longest-first",
                      (v, runs))


# ----------------------------------------------------------------------
# Links
# ----------------------------------------------------------------------
def h_links(ctx):
    from rig.links import Links
    part = ctx.pick(["table", "from_vector"])
    ctx.witness(part)
    if part == "table":
        ctx.prove(sorted(int(l) for l in Links) == list(range(6)),
                  "C11:links-numbering")
        seen = []
        for l in Links:
            ref = REF_VEC[int(l)]
            ctx.prove(REF_NAME.get(l.name) == int(l), "C11:links-numbering",
                      (l.name, int(l)))
            try:
                vec = tuple(l.to_vector())
                back = Links.from_vector(ref)
                opp = l.opposite
                ovec = tuple(opp.to_vector())
                oo = opp.opposite
            except Exception as e:
                ctx.observe(type(e).__name__)
                ctx.prove(False, "C11:links-raised", (l.name, repr(e)))
                return
            seen.append((int(l), vec, int(back), int(opp)))
            ctx.prove(vec == ref, "C11:links-to-vector-wrong", (l.name, vec))
            ctx.prove(back is l, "C11:links-from-vector-wrong",
                      (ref, int(back)))
            ctx.prove(Links.from_vector(vec) is l,
                      "C11:links-round-trip", (l.name, vec))
            ctx.prove(isinstance(opp, Links) and opp is not l and oo is l,
                      "C11:links-opposite-not-an-involution", l.name)
            ctx.prove(ovec == (-vec[0], -vec[1]) and
                      REF_VEC[int(opp)] == (-ref[0], -ref[1]),
                      "C11:links-opposite-is-not-the-negation",
                      (l.name, vec, ovec))
        ctx.observe(seen)
        return
    # from_vector on every vector: components -1, 0, 1 or wrapped (|v| > 1,
    # unbounded).  (A symbolic component in -1..1 cannot be looked up in
    # rig's dict of plain tuples, hence the structural split.)
    comp = []
    for name in ("x", "y"):
        k = ctx.choose(4)
        if k < 3:
            comp.append(k - 1)
        else:
            c = ctx.int(name)
            ctx.assume(abs(c) > 1)
            comp.append(c)
    x, y = comp
    ex = ite(abs(x) > 1, ite(x > 0, -1, 1), x)
    ey = ite(abs(y) > 1, ite(y > 0, -1, 1), y)
    if (x, y) == (0, 0):
        ctx.prove(True, "C11:links-from-vector-domain")
        ctx.observe("outside the domain")
        return
    try:
        l = Links.from_vector((x, y))
    except Exception as e:
        ctx.observe(type(e).__name__)
        ctx.prove(False, "C11:links-raised", ((x, y), repr(e)))
        return
    ctx.observe(int(l))
    ctx.prove(isinstance(l, Links), "C11:links-from-vector-type")
    lx, ly = REF_VEC[int(l)]
    diagonal = sor(sand(ex == 1, ey == -1), sand(ex == -1, ey == 1))
    ctx.prove(ite(diagonal,
                  sand((lx - ex) % 2 == 0, (ly - ey) % 2 == 0),
                  sand(lx == ex, ly == ey)),
              "C11:links-from-vector-wrong", ((x, y), int(l)))


def h_links_between(ctx, w, h, K):
    """links_between(a, b, machine) is exactly the set of working links of
    `a` whose vector leads to `b` on the w x h torus -- for every pair of
    chips (structural) and every set of at most K dead links (one solver
    boolean per link looked at)."""
    from rig.place_and_route.machine import Machine
    from rig.place_and_route.route.utils import links_between
    from rig.links import Links
    from harness import c03
    chips = [(x, y) for x in range(w) for y in range(h)]
    a = ctx.pick(chips)
    b = ctx.pick(chips)
    m = Machine(w, h)
    linkset = c03.SymLinkSet(ctx, w, h, K, set(), set())
    m.dead_links = linkset
    try:
        got = links_between(a, b, m)
        back = links_between(b, a, m)
    except Exception as e:
        ctx.observe(type(e).__name__)
        ctx.prove(False, "C11:links-between-raised", (a, b, repr(e)))
        return
    ctx.observe(sorted(int(l) for l in got), sorted(int(l) for l in back))
    ctx.witness("several links" if len(got) > 1 else
                "one link" if got else "no link")
    ctx.prove(all(isinstance(l, Links) for l in got),
              "C11:links-between-type")
    for l in range(6):
        lx, ly = REF_VEC[l]
        joins = ((a[0] + lx) % w, (a[1] + ly) % h) == b
        alive = snot(linkset.dead(a[0], a[1], l))
        ctx.prove(same_truth(Links(l) in got, sand(joins, alive)),
                  "C11:links-between-wrong-set",
                  (w, h, a, b, l, sorted(int(x) for x in got)))
        # ... and the way back is by the opposite links
        opp = int(Links(l).opposite)
        alive_back = snot(linkset.dead(b[0], b[1], opp))
        ctx.prove(same_truth(Links(opp) in back, sand(joins, alive_back)),
                  "C11:links-between-opposites-disagree",
                  (w, h, a, b, l, sorted(int(x) for x in back)))


# ----------------------------------------------------------------------
# concentric_hexagons
# ----------------------------------------------------------------------
def _fresh_geometry():
    """Put rig.geometry back into the state of a fresh process.

    Anything a call may have left behind at module level (a cache, a
    function attribute, a mutable default argument -- whatever its name) is
    discarded by re-executing the module.  Every hexagon path starts with
    this (about 9 ms), so that the verdict of a path depends on that path's own call
    history only -- not on which paths the worker process ran before -- and a
    replay in a fresh process sees what the exploring worker saw."""
    import importlib
    import rig.geometry
    importlib.reload(rig.geometry)
    return rig.geometry.concentric_hexagons


def _hex_oracle(ctx, out, x0, y0, r, what):
    """`out` is every chip within distance r of (x0, y0), once each, nearest
    ring first."""
    # offsets from the centre: constants, whatever the (symbolic) centre
    offs = [(int(x - x0), int(y - y0)) for x, y in out]
    want = sorted((i, j) for i in range(-r, r + 1) for j in range(-r, r + 1)
                  if mesh_dist(i, j) <= r)
    ctx.prove(len(offs) == len(set(offs)), "C11:hexagons-chip-repeated",
              (what, r, offs))
    ctx.prove(sorted(offs) == want, "C11:hexagons-wrong-set-of-chips",
              (what, r, sorted(set(want) ^ set(offs))))
    dists = [mesh_dist(i, j) for i, j in offs]
    ctx.prove(all(a <= b for a, b in zip(dists, dists[1:])),
              "C11:hexagons-not-nearest-ring-first", (what, r, dists))
    ctx.prove(bool(offs) and offs[0] == (0, 0), "C11:hexagons-centre-first",
              what)
    if not ctx.symbolic:
        for (i, j), dd in zip(offs, dists):
            ctx.prove(brute_mesh(i, j) == dd,
                      "C11:lemma-mesh-closed-form-vs-search", (i, j, dd))


def h_hexagons(ctx, rmax):
    concentric_hexagons = _fresh_geometry()
    r = ctx.pick(range(rmax + 1))
    default_start = ctx.choose(2)
    if default_start:
        x0, y0 = 0, 0
        args = (r,)
    else:
        x0, y0 = ctx.int("x0"), ctx.int("y0")
        args = (r, (x0, y0))
    ok, out, _ = _call(ctx, "concentric_hexagons",
                       lambda *a: list(concentric_hexagons(*a)), *args)
    if not ok:
        return
    ctx.observe(out)
    ctx.witness("radius %d" % min(r, 2))
    _hex_oracle(ctx, out, x0, y0, r, "one full enumeration in a fresh module")


def _n_hex(r):
    return 3 * r * (r + 1) + 1


def _cut_positions(ra, every):
    """Numbers of items after which generator A is left: all of 0..N(ra)-1,
    or one per position class: not started, centre only, and for every ring
    its first item, its middle, its last but one and its last item."""
    if every:
        return list(range(_n_hex(ra)))
    ks = {0, 1}
    for ring in range(1, ra + 1):
        first = _n_hex(ring - 1) + 1
        ks.update((first, first + 3 * ring - 1, _n_hex(ring) - 1,
                   _n_hex(ring)))
    return sorted(k for k in ks if k < _n_hex(ra))


def h_hex_history(ctx, rmax, every):
    """concentric_hexagons is a function of its arguments only: what earlier
    generators did -- in particular generators that were abandoned part-way
    round a ring, or are still suspended -- does not change what a later
    enumeration yields.

    (a) "abandon": a generator A (radius ra) is advanced by k items -- k
    from _cut_positions: before the centre, between rings, inside each ring
    -- and then closed or left suspended (the nearest-neighbour
    search idiom: break at the first hit); then a full enumeration B from
    another (symbolic) centre with radius rb (below, at and above the ring A
    was cut in) must satisfy the oracle.
    (b) "interleave": A is advanced by k, B is consumed completely, then A is
    finished; both must satisfy the oracle."""
    import itertools
    from rig.geometry import concentric_hexagons as stale
    scenario = ctx.pick(["abandon-close", "abandon-suspended", "interleave"])
    ra = ctx.pick(range(1, rmax + 1))
    k = ctx.pick(_cut_positions(ra, every))
    rb = ctx.pick(range(rmax + 1))
    ax, ay = ctx.int("ax"), ctx.int("ay")
    bx, by = ctx.int("bx"), ctx.int("by")
    # The state this path starts from is that of a fresh process (in which
    # a full enumeration is correct: unit "hexagons").
    concentric_hexagons = _fresh_geometry()
    ctx.prove(stale is not concentric_hexagons,
              "C11:hexagons-module-state-not-reset")
    def run():
        gen_a = concentric_hexagons(ra, (ax, ay))
        head = list(itertools.islice(gen_a, k))
        if scenario == "abandon-close":
            gen_a.close()
        out_b = list(concentric_hexagons(rb, (bx, by)))
        tail = list(gen_a) if scenario == "interleave" else None
        return head, out_b, tail, gen_a
    ok, res, _ = _call(ctx, "concentric_hexagons", run)
    if not ok:
        return
    head, out_b, tail, gen_a = res
    ctx.observe(scenario, ra, k, rb, head, out_b, tail)
    # which ring was A suspended in?  (k items consumed: the generator
    # stands at the yield of item k-1)
    ring = 0
    while k > _n_hex(ring):
        ring += 1
    ctx.witness(scenario)
    if 0 < k and k < _n_hex(ring) and ring >= 1 and rb >= ring:
        ctx.witness("cut inside a ring that the later call needs")
    if rb < ring:
        ctx.witness("later call stops below the cut ring")
    what = (scenario, "A: radius %d advanced by %d" % (ra, k),
            "B: radius %d" % rb)
    ctx.prove(len(head) == k, "C11:hexagons-wrong-set-of-chips",
              (what, "A yielded only", len(head)))
    _hex_oracle(ctx, out_b, bx, by, rb, what + ("B",))
    if tail is not None:
        _hex_oracle(ctx, head + tail, ax, ay, ra, what + ("A",))
    else:
        # what A did yield is a prefix of a correct enumeration
        offs = [(int(x - ax), int(y - ay)) for x, y in head]
        dists = [mesh_dist(i, j) for i, j in offs]
        ctx.prove(len(set(offs)) == len(offs) and
                  all(p <= q for p, q in zip(dists, dists[1:])) and
                  all(d <= ra for d in dists) and
                  all(dists.count(d) == (6 * d or 1)
                      for d in set(dists[:-1]) if d < dists[-1]),
                  "C11:hexagons-not-nearest-ring-first", (what, offs))


# ----------------------------------------------------------------------
# Informational: width and height symbolic as well
# ----------------------------------------------------------------------
def h_torus_anysize(ctx, part):
    w, h = ctx.int("w", 1), ctx.int("h", 1)
    h_torus(ctx, w, h, parts=(part,))


def _anysize_task(part):
    import sys
    from sx import engine as E
    sys.setrecursionlimit(20000)
    eng = E.Engine(timeout_ms=30000, path_timeout_s=60)
    t0 = time.time()
    try:
        eng.explore(lambda ctx: h_torus_anysize(ctx, part))
        status = "explored completely"
    except E.Inconclusive as e:
        status = "inconclusive: %s" % (e,)
    except BaseException as e:
        status = "error: %r" % (e,)
    viol = [v.as_dict() for v in eng.violations]
    if viol:
        status = "counterexample"
    elif eng.divergences:
        status = "engine divergence"
    elif status == "explored completely":
        status = "proved for every width, height >= 1"
    return {"part": part, "status": status, "paths": eng.stats.paths,
            "obligations": eng.stats.proved,
            "validated": eng.stats.validated,
            "unknown": eng.stats.unknown, "violations": viol[:3],
            "divergences": eng.divergences[:2],
            "wall_s": round(time.time() - t0, 1)}


_TIER = ["quick"]


def extra_evidence():
    """Not part of the verdict; bounded to ~3 minutes of wall time."""
    note = ("informational only: z3's non-linear integer arithmetic is "
            "incomplete, so this run may end 'inconclusive'; it never "
            "changes the exit status")
    if _TIER[0] != "thorough":
        return {"symbolic_width_height": {"status": "thorough tier only",
                                          "note": note}}
    import multiprocessing as mp
    parts = ["lemma", "length", "vector"]
    out = []
    pool = mp.get_context("fork").Pool(len(parts))
    try:
        jobs = [pool.apply_async(_anysize_task, (p,)) for p in parts]
        deadline = time.time() + 180
        for p, j in zip(parts, jobs):
            try:
                out.append(j.get(timeout=max(1, deadline - time.time())))
            except mp.TimeoutError:
                out.append({"part": p, "status": "inconclusive: no answer "
                                                 "within the time cap"})
            except Exception as e:
                out.append({"part": p, "status": "error: %r" % (e,)})
    finally:
        pool.terminate()
    for r in out:
        print("C11 info (not part of the verdict): torus %s with symbolic "
              "width and height: %s" % (r["part"], r["status"]))
    return {"symbolic_width_height": {"note": note, "parts": out}}


# ----------------------------------------------------------------------
WALK_SIZES = [(None, None), (1, 1), (1, 4), (2, 2), (2, 5), (3, 3), (5, 2),
              (4, 7), (None, 3), (4, None)]


def units(tier, seed):
    thorough = tier == "thorough"
    _TIER[0] = tier
    us = [Unit("mesh", h_mesh, witnesses=("lemma", "minimise", "length",
                                          "path", "to_xyz")),
          Unit("links", h_links, witnesses=("table", "from_vector")),
          Unit("hexagons", h_hexagons,
               dict(rmax=10 if thorough else 6),
               witnesses=("radius 0", "radius 1", "radius 2")),
          Unit("hexagons history", h_hex_history,
               dict(rmax=4 if thorough else 3, every=thorough), split=3,
               witnesses=("abandon-close", "abandon-suspended",
                          "interleave",
                          "cut inside a ring that the later call needs",
                          "later call stops below the cut ring"))]
    # which links join two chips: small tori are where several do
    for (w, h) in ((1, 1), (1, 2), (2, 1), (2, 2), (2, 3), (3, 2), (3, 3)) + (
            ((1, 3), (3, 1), (4, 2), (2, 4), (4, 4)) if thorough else ()):
        us.append(Unit("links between chips %dx%d torus, dead links" % (w, h),
                       h_links_between, dict(w=w, h=h, K=2),
                       witnesses=(("one link",) if w * h > 1 else ()) + (
                           ("several links",) if min(w, h) < 3 else ())))
    mag = 4 if thorough else 3
    for (w, h) in WALK_SIZES:
        us.append(Unit("walk %sx%s mag<=%d" % (w, h, mag), h_walk,
                       dict(w=w, h=h, mag=mag), split=2,
                       witnesses=("walked", "empty")))
    n = _T_MAX if thorough else _Q_MAX
    sizes = [(w, h) for w in range(1, n + 1) for h in range(1, n + 1)]
    if not thorough:
        # elongated tori (long side more than three times the short one):
        # several spirals around the short axis are possible only there
        sizes += [(16, 3), (3, 16), (22, 4), (5, 24), (24, 1), (2, 19)]
    for (w, h) in sizes:
        us.append(Unit("torus %02dx%02d" % (w, h), h_torus,
                       dict(w=w, h=h),
                       witnesses=("lemma", "length", "vector")))
    return us
