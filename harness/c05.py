"""C05 -- allocated resource ranges are exact, in range, aligned, disjoint and
unreserved.  Runs the real rig.place_and_route.allocate.greedy.allocate on
symbolic (unbounded, mathematical-integer) demands, capacities and reserved
ranges."""
from sx.runner import Unit
from sx.proxies import sand, sor, SymInt

PROPERTY = "C05"

META = {
    "bounds": "vertices per chip <= 3 (quick) / 4 (thorough) on one chip plus "
              "optionally one vertex on a second chip whose capacities are a "
              "resource exception; <= 2 resources; <= 2 global and <= 1 "
              "per-chip reservations per resource (3 global in the "
              "completeness units; 2 per-chip ones where they are for the "
              "chip with the exception, whose own range they may lie "
              "anywhere in), in arbitrary relative position and list "
              "order; the exact combinations are the unit names in the "
              "evidence (larger combinations -- 3 vertices with 3 global or "
              "2+1 reservations, 2+2 reservations -- did not finish within "
              "the thorough budget and were dropped); alignment in {1,2,3,4,8}; all "
              "demands, capacities and reservation bounds are unbounded "
              "symbolic integers >= 0 (zero-size demands and empty "
              "reservations included)",
    "stubs": [],
    "assumptions": [
        "documented precondition of ReserveResourceConstraint: reserved "
        "ranges lie inside the chip's range and do not overlap each other",
        "the placement is feasible in the placers' sense: per chip and "
        "resource, sum of demands <= capacity - reserved amount",
        "completeness clause: alignment 1, every reservation touches an end "
        "of the range (start = 0 or stop = capacity) on every chip it "
        "applies to, one or two chips",
    ],
    "outside_claim": ["more vertices per chip / reservations than stated",
                      "alignments other than 1,2,3,4,8",
                      "reservations that violate the documented "
                      "precondition"],
}


def h_alloc(ctx, nv, nres, ng, nl, alignment, second_chip, complete,
            exc_first=False, local_on="A"):
    from rig.place_and_route.allocate.greedy import allocate
    from rig.place_and_route import Machine, Cores, SDRAM
    from rig.place_and_route.constraints import (
        ReserveResourceConstraint, AlignResourceConstraint)
    from rig.place_and_route.exceptions import InsufficientResourceError

    resources = [Cores, SDRAM][:nres]
    chipA, chipB = (0, 0), (1, 0)
    cap = {chipA: {r: ctx.int("capA", 0) for r in resources}}
    exceptions = {}
    if second_chip:
        cap[chipB] = {r: ctx.int("capB", 0) for r in resources}
        exceptions[chipB] = dict(cap[chipB])
    machine = Machine(2, 1, chip_resources=dict(cap[chipA]),
                      chip_resource_exceptions=exceptions)

    vertices = ["v%d" % i for i in range(nv)]
    placements = {v: chipA for v in vertices}
    if second_chip:
        vertices.append("w")
        if exc_first:
            # the chip with the resource exception is allocated first
            placements = dict([("w", chipB)] + list(placements.items()))
        else:
            placements["w"] = chipB
    vr = {}
    for v in vertices:
        vr[v] = {r: ctx.int("dem", 0) for r in resources}
    if nres == 2 and nv >= 1 and ctx.choose(2):
        # A vertex that does not mention one of the resources at all
        del vr[vertices[0]][resources[1]]

    # Reservations: (resource, start, stop, location)
    constraints = []
    reserved = {c: {r: [] for r in resources} for c in cap}
    for r in resources:
        for k in range(ng):
            s = ctx.int("gs", 0)
            e = ctx.int("ge", 0)
            ctx.assume(s <= e)
            for c in cap:
                ctx.assume(e <= cap[c][r])
                reserved[c][r].append((s, e))
            constraints.append(ReserveResourceConstraint(r, slice(s, e)))
        for k in range(nl):
            s = ctx.int("ls", 0)
            e = ctx.int("le", 0)
            # the chip the local reservations are for: the default chip or
            # the one with the resource exception (which may have more of
            # the resource than the default)
            lchip = chipA if local_on == "A" else chipB
            ctx.assume(sand(s <= e, e <= cap[lchip][r]))
            reserved[lchip][r].append((s, e))
            constraints.append(
                ReserveResourceConstraint(r, slice(s, e), lchip))
    # Reservations do not overlap one another (per chip, per resource)
    for c in cap:
        for r in resources:
            rs = reserved[c][r]
            for i in range(len(rs)):
                for j in range(i + 1, len(rs)):
                    ctx.assume(sor(rs[i][1] <= rs[j][0],
                                   rs[j][1] <= rs[i][0],
                                   rs[i][0] == rs[i][1],
                                   rs[j][0] == rs[j][1]))
            if complete:
                for (s, e) in rs:
                    ctx.assume(sor(s == 0, e == cap[c][r]))
    if alignment != 1:
        constraints.append(AlignResourceConstraint(resources[0], alignment))
    # Arbitrary list order of the constraints
    if len(constraints) > 1 and ctx.choose(2):
        constraints.reverse()

    # Feasible placement (what a placer guarantees)
    for c in cap:
        for r in resources:
            total = sum((vr[v].get(r, 0) for v in vertices
                         if placements[v] == c), 0)
            res_total = sum((e - s for s, e in reserved[c][r]), 0)
            ctx.assume(total <= cap[c][r] - res_total)

    try:
        alloc = allocate(vr, [], machine, constraints, placements)
    except InsufficientResourceError:
        ctx.observe("InsufficientResourceError")
        ctx.witness("insufficient")
        if complete:
            ctx.prove(False, "allocate-incomplete",
                      "InsufficientResourceError on a feasible placement "
                      "without alignment and with end-only reservations")
        else:
            ctx.prove(True, "failure-is-documented-error")
        return
    except Exception as e:
        ctx.observe(type(e).__name__)
        ctx.prove(False, "allocate-unexpected-exception", repr(e))
        return

    ctx.witness("allocated")
    ctx.prove(set(alloc) == set(vertices), "allocate-vertex-set")
    for v in vertices:
        c = placements[v]
        ctx.prove(set(alloc[v]) == set(vr[v]), "allocate-resource-set")
        for r in vr[v]:
            sl = alloc[v][r]
            ctx.observe((v, str(r), sl.start, sl.stop))
            ctx.prove(sl.step is None, "allocate-step")
            a = alignment if r is resources[0] else 1
            ctx.prove(sand(sl.stop - sl.start == vr[v][r],
                           sl.start >= 0, sl.stop <= cap[c][r]),
                      "allocate-exact-in-range", (v, sl.start, sl.stop))
            ctx.prove(sl.start % a == 0, "allocate-aligned",
                      (v, sl.start, a))
            for (s, e) in reserved[c][r]:
                # overlap <=> max(starts) < min(stops)
                ctx.prove(sor(sl.stop <= s, e <= sl.start,
                              sl.start == sl.stop, s == e),
                          "allocate-overlaps-reservation",
                          (v, sl.start, sl.stop, s, e))
    for i, v in enumerate(vertices):
        for w in vertices[i + 1:]:
            if placements[v] != placements[w]:
                continue
            for r in vr[v]:
                if r not in vr[w]:
                    continue
                a, b = alloc[v][r], alloc[w][r]
                ctx.prove(sor(a.stop <= b.start, b.stop <= a.start,
                              a.start == a.stop, b.start == b.stop),
                          "allocate-overlaps-vertex",
                          (v, w, a.start, a.stop, b.start, b.stop))


def units(tier, seed):
    us = []

    def add(nv, nres, ng, nl, al, second, complete, exc_first=False,
            local_on="A", **kw):
        name = "alloc nv=%d nres=%d g=%d l=%d align=%d chips=%d%s%s%s" % (
            nv, nres, ng, nl, al, 2 if second else 1,
            " complete" if complete else "",
            " exception chip first" if exc_first else "",
            " local reservations on the exception chip"
            if local_on == "B" else "")
        us.append(Unit(name, h_alloc, dict(
            nv=nv, nres=nres, ng=ng, nl=nl, alignment=al,
            second_chip=second, complete=complete, exc_first=exc_first,
            local_on=local_on),
            witnesses=("allocated",), **kw))

    # soundness units
    add(1, 1, 1, 0, 1, False, False)
    add(2, 1, 1, 1, 1, False, False, split=5)
    add(2, 1, 2, 0, 4, False, False, split=5)
    add(1, 2, 1, 0, 2, True, False, split=5)
    add(3, 1, 1, 0, 1, False, False)
    add(3, 1, 2, 0, 1, False, False, split=6)
    add(1, 1, 1, 1, 3, True, False, split=5)
    add(2, 1, 0, 0, 8, False, False)
    # completeness units (alignment 1, end-only reservations, one chip)
    add(2, 1, 2, 0, 1, False, True)
    add(3, 1, 2, 0, 1, False, True, split=4)
    add(2, 1, 1, 1, 1, False, True)
    # ... on two chips: what is reserved on one chip only must not count on
    # the chip allocated after it
    add(1, 1, 1, 1, 1, True, True, split=4)
    add(2, 1, 1, 1, 1, True, True, split=5)
    # ... and with the exceptional chip allocated before the ordinary one
    # (soundness: in range; completeness: no spurious failure)
    # reservations for the chip with the resource exception (anywhere in
    # that chip's own range, which may reach beyond the default's)
    add(1, 1, 0, 2, 1, True, False, local_on="B", split=4)
    add(1, 1, 1, 1, 1, True, True, local_on="B", split=4)
    add(1, 1, 1, 0, 1, True, False, exc_first=True, split=4)
    add(1, 1, 1, 0, 1, True, True, exc_first=True, split=4)
    if tier == "thorough":
        for al in (2, 3, 4, 8):
            add(3, 1, 2, 0, al, False, False, split=6)
        add(2, 2, 1, 0, 2, True, False, split=7)
        add(2, 1, 1, 1, 3, True, False, split=7)
        add(4, 1, 1, 0, 1, False, False, split=6)
        add(4, 1, 2, 0, 1, False, False, split=8)
        add(4, 1, 2, 0, 1, False, True, split=8)
        add(3, 1, 3, 0, 1, False, True, split=7)
        add(3, 1, 2, 1, 1, False, True, split=7)
    return us
