import random, sys, warnings, itertools
warnings.simplefilter("ignore")
random.seed(int(sys.argv[1]))
# ---------------- C12 regions
from rig.machine_control.regions import compress_flood_fill_regions, get_region_for_chip
def decode(region, mask):
    """documented region word: bits31:24 x, 23:16 y (with level in bits 17:16), 15:0 select"""
    level = (region >> 16) & 3
    shift = 6 - 2*level
    m = 0xffff ^ ((4 << shift) - 1)
    bx = (region >> 24) & m & 0xff; by = (region >> 16) & m & 0xff
    sel = region & 0xffff
    out = set()
    size = 1 << shift
    for s in range(16):
        if sel & (1 << s):
            sx = bx + (s % 4) * size; sy = by + (s // 4) * size
            for x in range(sx, sx + size):
                for y in range(sy, sy + size):
                    for p in range(18):
                        if mask & (1 << p): out.add((x, y, p))
    return out
bad = 0
for it in range(150):
    targets = {}
    mode = random.random()
    if mode < 0.4:
        for _ in range(random.randint(1, 30)):
            targets.setdefault((random.randrange(256), random.randrange(256)), set()).add(random.randrange(18))
    else:
        # dense blocks
        lvl = random.choice([1, 2, 3]); size = 4 ** (4 - lvl) // 4 * 4 if lvl < 3 else 4
        size = {1: 64, 2: 16, 3: 4}[lvl]
        bx = random.randrange(256 // size) * size; by = random.randrange(256 // size) * size
        cores = set(random.sample(range(18), random.randint(1, 3)))
        for x in range(bx, bx + size):
            for y in range(by, by + size):
                targets[(x, y)] = set(cores)
        # knock out a few
        for _ in range(random.randint(0, 3)):
            k = random.choice(list(targets)); 
            if random.random() < 0.5: targets[k] = targets[k] - {random.choice(list(cores))}
            else: targets[k] = targets[k] | {random.randrange(18)}
        targets = {k: v for k, v in targets.items() if v}
    exp = set((x, y, p) for (x, y), ps in targets.items() for p in ps)
    fills = compress_flood_fill_regions(targets)
    got = set(); dup = False
    for r, m in fills:
        d = decode(r, m)
        if got & d: dup = True
        got |= d
    if got != exp or dup or fills != sorted(fills) or len(set(fills)) != len(fills):
        bad += 1; print("C12 BAD", len(exp), len(got), dup)
print("C12 bad", bad)
for x in range(0,256,37):
    for y in range(0,256,41):
        assert decode(get_region_for_chip(x,y,3), 1) == {(x,y,0)}
# ---------------- C07 chunking
from rig.machine_control.scp_connection import SCPConnection, scpcall
from rig.machine_control import consts
class Rec(SCPConnection):
    def __init__(self): self.calls = []; self.mem = {}
    def send_scp_burst(self, buffer_size, window_size, pcs):
        pcs = list(pcs); random.shuffle(pcs)
        for c in pcs:
            self.calls.append(c)
            assert c.arg2 <= buffer_size
            if c.cmd == consts.SCPCommands.write:
                assert len(c.data) == c.arg2
                for i, b in enumerate(c.data): self.mem[c.arg1 + i] = b
            else:
                data = bytes(self.mem.get(c.arg1 + i, 0xEE) for i in range(c.arg2))
                c.callback(b"\0" * (6 + 8) + data)
            dt = c.arg3
            if dt == consts.DataType.word: assert c.arg1 % 4 == 0 and c.arg2 % 4 == 0
            if dt == consts.DataType.short: assert c.arg1 % 2 == 0 and c.arg2 % 2 == 0
bad = 0
for it in range(3000):
    r = Rec(); addr = random.randrange(0, 64); n = random.randrange(0, 40); buf = random.choice([1, 2, 3, 4, 5, 7, 8, 16])
    data = bytes(random.randrange(256) for _ in range(n))
    r.write(buf, 1, 0, 0, 0, addr, data)
    if r.mem != {addr + i: b for i, b in enumerate(data)}: bad += 1; print("C07 W BAD")
    got = r.read(random.choice([1, 2, 3, 4, 5, 7, 8, 16]), 1, 0, 0, 0, addr, n)
    if got != data: bad += 1; print("C07 R BAD", addr, n)
print("C07 bad", bad)
# ---------------- C15 packets
from rig.machine_control.packets import SCPPacket, SDPPacket
bad = 0
for it in range(5000):
    kw = dict(reply_expected=random.random() < .5, tag=random.randrange(256), dest_port=random.randrange(8), dest_cpu=random.randrange(32),
              src_port=random.randrange(8), src_cpu=random.randrange(32), dest_x=random.randrange(256), dest_y=random.randrange(256),
              src_x=random.randrange(256), src_y=random.randrange(256), cmd_rc=random.randrange(65536), seq=random.randrange(65536))
    na = random.randrange(4)
    args = [random.randrange(2**32) for _ in range(na)] + [None] * (3 - na)
    data = bytes(random.randrange(256) for _ in range(random.randrange(0, 14)))
    p = SCPPacket(arg1=args[0], arg2=args[1], arg3=args[2], data=data, **kw)
    bs = p.bytestring
    q = SCPPacket.from_bytestring(bs, n_args=na)
    for f in list(kw) + ["arg1", "arg2", "arg3", "data"]:
        if getattr(q, f) != getattr(p, f): bad += 1; print("C15 BAD", f, getattr(q, f), getattr(p, f)); break
print("C15 bad", bad)
