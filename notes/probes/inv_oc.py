import random, sys, warnings
warnings.simplefilter("ignore")
from rig.routing_table import RoutingTableEntry as RTE, Routes
from rig.routing_table import ordered_covering as oc
from rig.routing_table.utils import intersect
B = 4; HI = (0xffffffff >> B) << B
def gen(k, m): return bin((~k) & (~m) & 0xffffffff).count("1")
def matches(k, km): return (k & km[1]) == km[0]
random.seed(int(sys.argv[1])); bad = 0; steps = 0
routes = [frozenset([Routes.north]), frozenset([Routes.south]), frozenset([Routes.core(1)])]
for it in range(int(sys.argv[2])):
    tab = []
    orth = random.random() < .5
    for _ in range(random.randint(2, 7)):
        m = random.randrange(1 << B); k = random.randrange(1 << B) & m
        if orth and any(intersect(k, m | HI, e.key, e.mask) for e in tab): continue
        if any((k, m | HI) == (e.key, e.mask) for e in tab): continue
        tab.append(RTE(random.choice(routes), k, m | HI))
    tab.sort(key=lambda e: gen(e.key, e.mask))
    aliases = {}
    def al(e): return aliases.get((e.key, e.mask), {(e.key, e.mask)})
    def sem(T, k):
        for e in T:
            if matches(k, (e.key, e.mask)): return e.route
    dom = [k for k in range(1 << B) if sem(tab, k) is not None]
    ref = {k: sem(tab, k) for k in dom}
    T = tab
    while True:
        mg = oc._get_best_merge(T, aliases)
        if mg.goodness <= 0: break
        T, aliases = mg.apply(aliases); steps += 1
        # I1
        g = [gen(e.key, e.mask) for e in T]
        if g != sorted(g): bad += 1; print("I1")
        # I2
        for e in T:
            for a in al(e):
                for k in range(1 << B):
                    if matches(k, a) and not matches(k, (e.key, e.mask)): bad += 1; print("I2"); break
        # I3
        for i in range(len(T)):
            for j in range(i + 1, len(T)):
                for a in al(T[j]):
                    for k in range(1 << B):
                        if matches(k, a) and matches(k, (T[i].key, T[i].mask)) and not any(matches(k, a2) for a2 in al(T[i])):
                            bad += 1; print("I3", [str(e) for e in tab], "->", [str(e) for e in T])
        for k in dom:
            if sem(T, k) != ref[k]: bad += 1; print("SEM")
print("steps", steps, "bad", bad)
