"""C07 -- remote memory reads and writes are byte-exact for any address and
length.  The real MachineController / SCPConnection read, write, fill, struct
field, per-core field and across-link methods run (through the real packet
encoder and send_scp_burst) against the machine model of models/machine.py
with a symbolic 32-bit address and symbolic payload bytes."""
from sx.runner import Unit
from sx.proxies import sand, sor, snot, ite, is_sym

PROPERTY = "C07"

META = {
    "bounds": "address a symbolic 32-bit value (every alignment); payload "
              "bytes symbolic; transfer lengths 0..12 bytes (quick) / 0..16 "
              "(thorough) against advertised buffer sizes 4 and 6 (and 8), i.e. "
              "0 to 3 buffers plus a tail; window sizes 1..3; fill with a "
              "symbolic value, sizes 0..12; per-core (vcpu) fields with a "
              "symbolic vcpu_base stored in the machine and symbolic core "
              "number 0..17; sv struct fields at their concrete addresses; "
              "link transfers of 0..3 words; network faults (request lost, "
              "reply lost, reply duplicated) with a budget of 1 (quick) / 2 "
              "(thorough), plus at most one reply delayed past its timeout, "
              "replies delivered in any order, on transfers of up to 3 chunks; "
              "large transfers against a 256-byte buffer: writes and reads "
              "of 515 (thorough also 1024, 1029, 2050) bytes whose content "
              "repeats four symbolic bytes (reads checked at every chunk "
              "boundary +-1, the ends and the middle), fills of 259 and 516 "
              "(thorough also 1001, 1024) bytes; several per-core accesses "
              "through one controller (two chips with different symbolic "
              "vcpu_base, vcpu_base rewritten between accesses); the string "
              "field app_name with concrete base, core and text",
    "stubs": ["clock / select / socket: models/net.py (prompt, fault-free "
              "delivery except in the fault units; there the clock is "
              "concrete -- timing is C06's subject -- and the network's "
              "loss / duplication / reordering choices are all explored)",
              "the SpiNNaker machine: models/machine.py (plain byte memory "
              "per chip and per link, sver, read, write, fill, link_read, "
              "link_write)",
              "struct shim in packets, scp_connection, machine_controller; "
              "bytearray / memoryview / bytes in scp_connection and "
              "machine_controller rebound to symbolic-content versions",
              "consts.address_length_dtype wrapped so that a lookup with a "
              "symbolic residue concretises it (forks over the 4 residues)"],
    "assumptions": [
        "the transfer lies inside the 32-bit address space (address + length "
        "<= 2**32); vcpu_base < 2**30",
        "a retransmitted write or fill is executed again by the machine "
        "(idempotent); a lost request is not executed",
        "memory initially holds a fixed function of the address, so a read "
        "of the wrong address shows",
    ],
    "outside_claim": ["transfers with fully symbolic content longer than 16 "
                      "bytes; lengths other than those listed",
                      "fault budgets above 2"],
}

X, Y = 3, 2


def _expected_after_write(t, addr, payload):
    from models.machine import _mix
    v = _mix(t)
    for i in range(len(payload)):
        v = ite(t == addr + i, payload[i], v)
    return v


def _check_commands(ctx, machine, buf, kinds, where):
    """Every command of the kinds given stays within the buffer, addresses
    the right chip/core and uses an access type its address and length
    allow."""
    ctx.prove(not machine.problems, "memory-command-malformed",
              repr(machine.problems[:3]))
    for q in machine.log:
        cmd = int(q.cmd)
        if cmd not in kinds:
            continue
        ctx.prove(sand(q.dest_x == where[0], q.dest_y == where[1],
                       q.dest_cpu == where[2]), "memory-command-wrong-core",
                  (q.dest_x, q.dest_y, q.dest_cpu))
        if cmd in (2, 3):
            n, unit = q.arg2, int(q.arg3)
            ctx.prove(n <= buf, "memory-command-exceeds-buffer", (n, buf))
            ctx.prove(unit in (0, 1, 2), "memory-command-bad-type", unit)
            if unit == 2:
                ctx.prove(sand(q.arg1 % 4 == 0, n % 4 == 0),
                          "memory-word-access-unaligned", (q.arg1, n))
            elif unit == 1:
                ctx.prove(sand(q.arg1 % 2 == 0, n % 2 == 0),
                          "memory-short-access-unaligned", (q.arg1, n))
        if cmd in (17, 18):
            ctx.prove(sand(q.arg1 % 4 == 0, q.arg2 % 4 == 0,
                           q.arg2 <= buf), "memory-link-access-not-words",
                      (q.arg1, q.arg2))


def _controller(ctx, buf, faults=0, kinds=(), window=None, multi=False):
    from models.net import World
    from models.machine import Machine, ControllerPatch
    machine = Machine(ctx, buffer_size=buf)
    world = World(ctx, machine=machine, faults=faults, kinds=kinds,
                  prompt=(faults == 0 and not multi), multi_recv=multi,
                  timed=False, delays=0 if multi else 1)
    return machine, world, ControllerPatch(world)


def h_rw(ctx, op, lengths, bufs, windows=(1,), faults=0, kinds=(),
         multi=False):
    """write / read through the MachineController."""
    from rig.machine_control import MachineController
    from models.machine import _mix
    buf = ctx.pick(bufs)
    n = ctx.pick(lengths)
    window = ctx.pick(windows)
    machine, world, patch = _controller(ctx, buf, faults, kinds, multi=multi)
    addr = ctx.bv("addr", 32)
    ctx.assume(addr + n <= (1 << 32))
    t = ctx.bv("t", 32)
    # the core the transfer is addressed to: any of the 18 (fault-free units)
    P = 1
    if not faults and not multi:
        P = ctx.bv("core", 5)
        ctx.assume(P <= 17)
    with patch:
        mc = MachineController("host", n_tries=2)
        mc._window_size = window
        mem = machine.memory((X, Y))
        try:
            if op == "write":
                payload = ctx.bytes("data", n)
                r = mc.write(addr, payload, X, Y, P)
                ctx.observe("write", r)
                ctx.witness("wrote")
                got = mem.load(t)
                want = _expected_after_write(t, addr, payload)
                ctx.prove(got == want, "memory-write-wrong-bytes",
                          (addr, n, t, got, want))
            else:
                # some earlier content overlapping the region
                prior = ctx.bytes("prior", 0 if faults else 3)
                paddr = ctx.bv("paddr", 32)
                mem.write(paddr, prior)
                data = mc.read(addr, n, X, Y, P)
                ctx.observe("read", data)
                ctx.witness("read")
                ctx.prove(len(data) == n, "memory-read-wrong-length")
                for i in range(min(n, len(data))):
                    want = _expected_after_write(addr + i, paddr, prior)
                    ctx.prove(data[i] == want, "memory-read-wrong-bytes",
                              (addr, n, i, data[i], want))
                # reading changes nothing
                ctx.prove(len(mem.writes) == len(prior),
                          "memory-read-modified")
        except Exception as e:
            from rig.machine_control.scp_connection import SCPError
            if faults and isinstance(e, SCPError):
                # with faults the transport may legitimately give up (C06)
                ctx.observe("transport error")
                ctx.witness("gave-up")
                ctx.prove(True, "transport-error-allowed")
                return
            ctx.observe(type(e).__name__)
            ctx.prove(False, "memory-unexpected-exception", repr(e))
            return
    ctx.prove(set(machine.memories) <= {(X, Y)}, "memory-other-chip-touched",
              repr(sorted(machine.memories)))
    _check_commands(ctx, machine, buf, (2, 3), (X, Y, P))


def h_rw_large(ctx, op, lengths, bufs):
    """Transfers of several buffers' length: the payload (or the memory read)
    repeats four symbolic bytes, so that the machine model logs one record
    per command; address and pattern symbolic."""
    from rig.machine_control import MachineController
    from models.machine import _mix, _Run
    from sx.proxies import SymBytes
    buf = ctx.pick(bufs)
    n = ctx.pick(lengths)
    machine, world, patch = _controller(ctx, buf)
    addr = ctx.bv("addr", 32)
    ctx.assume(addr + n <= (1 << 32))
    pat = ctx.bytes("pattern", 4)
    with patch:
        mc = MachineController("host", n_tries=2)
        mem = machine.memory((X, Y))
        try:
            if op == "write":
                payload = SymBytes([pat[i % 4] for i in range(n)])
                mc.write(addr, payload, X, Y, 1)
                ctx.observe("wrote large")
                ctx.witness("wrote")
                t = ctx.bv("t", 32)
                got = mem.load(t)
                want = _Run(addr, n, [pat[k] for k in range(4)]).apply(
                    t, _mix(t))
                ctx.prove(got == want, "memory-write-wrong-bytes",
                          (addr, n, t, got, want))
            else:
                paddr = ctx.bv("paddr", 32)
                run = _Run(paddr, 2 * n, [pat[k] for k in range(4)])
                mem.writes.append(run)
                data = mc.read(addr, n, X, Y, 1)
                ctx.observe("read large", len(data))
                ctx.witness("read")
                ctx.prove(len(data) == n, "memory-read-wrong-length")
                marks = sorted(set(
                    i for k in range(0, n + buf, buf) for i in
                    (k - 1, k, k + 1) if 0 <= i < min(n, len(data))) |
                    {0, n - 1, n // 2})
                for i in marks:
                    want = run.apply(addr + i, _mix(addr + i))
                    ctx.prove(data[i] == want, "memory-read-wrong-bytes",
                              (addr, n, i, data[i], want))
                ctx.prove(len(mem.writes) == 1, "memory-read-modified")
        except Exception as e:
            ctx.observe(type(e).__name__)
            ctx.prove(False, "memory-unexpected-exception", repr(e))
            return
    ctx.prove(set(machine.memories) <= {(X, Y)}, "memory-other-chip-touched",
              repr(sorted(machine.memories)))
    _check_commands(ctx, machine, buf, (2, 3), (X, Y, 1))


def h_fill(ctx, sizes, bufs):
    from rig.machine_control import MachineController
    from models.machine import _mix
    buf = ctx.pick(bufs)
    size = ctx.pick(sizes)
    machine, world, patch = _controller(ctx, buf)
    addr = ctx.bv("addr", 32)
    value = ctx.bv("value", 32)
    ctx.assume(addr + size <= (1 << 32))
    t = ctx.bv("t", 32)
    with patch:
        mc = MachineController("host")
        mem = machine.memory((X, Y))
        aligned = sand(addr % 4 == 0, size % 4 == 0)
        if not (bool(aligned) if is_sym(aligned) else aligned):
            # the documented contract: data is a byte unless both are
            # word aligned
            ctx.assume(value < 256)
            is_word = False
        else:
            is_word = True
        try:
            mc.fill(addr, value, size, X, Y, 1)
        except Exception as e:
            ctx.observe(type(e).__name__)
            ctx.prove(False, "memory-unexpected-exception", repr(e))
            return
        ctx.observe("filled", is_word)
        ctx.witness("word-fill" if is_word else "byte-fill")
        got = mem.load(t)
        want = _mix(t)
        if size <= 32:
            for i in range(size):
                b = ((value >> (8 * (i % 4))) & 0xff) if is_word else value
                want = ite(t == addr + i, b, want)
        else:
            # the same as one term (large regions)
            off = t - addr
            b = value
            if is_word:
                b = ite(off % 4 == 0, value & 0xff,
                        ite(off % 4 == 1, (value >> 8) & 0xff,
                            ite(off % 4 == 2, (value >> 16) & 0xff,
                                (value >> 24) & 0xff)))
            want = ite(sand(t >= addr, t < addr + size), b, want)
        ctx.prove(got == want, "memory-fill-wrong-bytes",
                  (addr, size, value, t, got, want))
    ctx.prove(set(machine.memories) <= {(X, Y)}, "memory-other-chip-touched")
    _check_commands(ctx, machine, buf, (2, 3, 5), (X, Y, 1))


def h_link(ctx, words, bufs):
    from rig.machine_control import MachineController
    from rig.links import Links
    buf = ctx.pick(bufs)
    n = 4 * ctx.pick(words)
    op = ctx.pick(["write", "read"])
    link = ctx.pick([Links.east, Links.south_west])
    machine, world, patch = _controller(ctx, buf)
    addr = ctx.bv("addr", 32)
    ctx.assume(addr + n <= (1 << 32))
    t = ctx.bv("t", 32)
    with patch:
        mc = MachineController("host")
        mem = machine.memory((X, Y, int(link)))
        try:
            if op == "write":
                payload = ctx.bytes("data", n)
                mc.write_across_link(addr, payload, X, Y, link)
                ctx.observe("written")
                got = mem.load(t)
                want = _expected_after_write(t, addr, payload)
                ctx.prove(got == want, "memory-link-write-wrong-bytes",
                          (addr, n, t, got, want))
            else:
                data = mc.read_across_link(addr, n, X, Y, link)
                ctx.observe("read", data)
                ctx.prove(len(data) == n, "memory-read-wrong-length")
                from models.machine import _mix
                for i in range(min(n, len(data))):
                    ctx.prove(data[i] == _mix(addr + i),
                              "memory-link-read-wrong-bytes", (addr, i))
            ctx.witness("link-" + op)
            ctx.prove(addr % 4 == 0, "memory-link-unaligned-accepted")
        except ValueError:
            ctx.observe("ValueError")
            ctx.witness("link-rejected")
            ctx.prove(addr % 4 != 0, "memory-link-aligned-rejected")
            ctx.prove(len(machine.log) <= 1, "memory-link-rejected-but-sent")
            return
        except Exception as e:
            ctx.observe(type(e).__name__)
            ctx.prove(False, "memory-unexpected-exception", repr(e))
            return
    ctx.prove(set(machine.memories) <= {(X, Y, int(link))},
              "memory-other-chip-touched")
    _check_commands(ctx, machine, buf, (17, 18), (X, Y, 0))


def h_struct(ctx, which, nfields):
    """sv struct fields (concrete addresses) and per-core vcpu fields
    (symbolic vcpu_base and core number)."""
    import struct as real_struct
    from rig.machine_control import MachineController
    from sx.shims import struct as sstruct
    buf = 16
    machine, world, patch = _controller(ctx, buf)
    with patch:
        mc = MachineController("host")
        mem = machine.memory((X, Y))
        sv = mc.structs[b"sv"]
        vcpu = mc.structs[b"vcpu"]
        st = sv if which == "sv" else vcpu
        names = sorted(st.fields)
        # a deterministic spread of fields (all of them in thorough)
        step = max(1, len(names) // nfields)
        picked = names[::step]
        # always: the array fields (sv) and the string field (vcpu)
        for extra in (b"status_map", b"app_name"):
            if extra in st.fields and extra not in picked:
                picked = picked + [extra]
        name = ctx.pick(picked)
        field = st[name]
        # sv: an array field is `length` repetitions of its element.  vcpu:
        # the per-core accessors transfer one element of the field's pack
        # type (the string field app_name[16] is a single "16s" element; the
        # only other array there is the padding __PAD[4], of which the first
        # word is transferred).
        whole = b"<" + (field.pack_chars * field.length if which == "sv"
                        else field.pack_chars)
        op = ctx.pick(["read", "write"])
        if which == "sv":
            base = sv.base
            p = 0
        else:
            is_text = b"s" in field.pack_chars
            if is_text:
                # text cannot be symbolic (strip / decode): concrete base,
                # core and content for the string field
                vbase = ctx.pick((0x67800000, 0x2ffffff0))
                p = ctx.pick((0, 5, 17))
            else:
                vbase = ctx.bv("vcpu_base", 30)
                p = ctx.bv("p", 5)
                ctx.assume(p <= 17)
            vb_field = sv[b"vcpu_base"]
            mem.write(sv.base + vb_field.offset, sstruct.pack("<I", vbase))
            base = vbase + vcpu.size * p
        address = base + field.offset
        fname = name.decode("ascii")
        if which == "vcpu" and is_text:
            text = ctx.pick(("", "a", "sixteen chars!!!", "stop\0here"))
            stored = text.encode("ascii")[:16].ljust(16, b"\0")
            mem.write(address, stored)
            mark = len(machine.log)
            try:
                if op == "read":
                    val = mc.read_vcpu_struct_field(fname, X, Y, p)
                    ctx.observe("read", fname, val)
                    want = stored.strip(b"\0").decode("utf-8")
                    ctx.prove(val == want, "struct-field-wrong-value",
                              (fname, val, want))
                else:
                    new = ctx.pick(("", "b", "another 16 chars",
                                    "seventeen chars!!",
                                    u"Gr\u00f6\u00dfen\u00fcberpr\u00fcfung",
                                    u"\u00e9" * 8 + "x"))
                    mc.write_vcpu_struct_field(fname, new, X, Y, p)
                    ctx.observe("written", fname)
                    got = mem.read(address, 16)
                    # "16s": the encoded text cut to / padded to 16 bytes
                    want = new.encode("utf-8")[:16].ljust(16, b"\0")
                    ctx.prove(bytes(got) == want, "struct-field-wrong-value",
                              (fname, bytes(got), want))
                    # ... and not a byte outside the field
                    for q in machine.log[mark:]:
                        if int(q.cmd) == 3:
                            ctx.prove(q.arg1 == address and
                                      int(q.arg2) == 16,
                                      "struct-field-wrong-length",
                                      (fname, q.arg1, q.arg2))
                    for off in (-1, 16, 17, 19):
                        from models.machine import _mix
                        b = mem.load(address + off)
                        ctx.prove(b == _mix(address + off),
                                  "memory-write-wrong-bytes",
                                  (fname, off, b))
            except Exception as e:
                ctx.observe(type(e).__name__)
                ctx.prove(False, "memory-unexpected-exception",
                          (fname, repr(e)))
                return
            ctx.witness("vcpu-text-" + op)
            cmds = [q for q in machine.log[mark:] if int(q.cmd) in (2, 3)]
            ctx.prove(len(cmds) >= 2 and cmds[-1].arg1 == address,
                      "struct-field-wrong-address",
                      (fname, [q.arg1 for q in cmds], address))
            for q in cmds:
                ctx.prove((q.dest_x, q.dest_y, q.dest_cpu) == (X, Y, 0),
                          "struct-field-wrong-core")
            _check_commands(ctx, machine, buf, (), (X, Y, 0))
            return
        mark = len(machine.log)
        try:
            if op == "read":
                if which == "sv":
                    val = mc.read_struct_field("sv", fname, X, Y)
                else:
                    val = mc.read_vcpu_struct_field(fname, X, Y, p)
                ctx.observe("read", fname, val)
            else:
                code = field.pack_chars.decode("ascii")
                if code[-1] == "s":
                    ctx.observe("skip string field")
                    ctx.prove(True, "skip")
                    return
                bits = 8 * real_struct.calcsize("<" + code[-1])
                value = ctx.bv("value", min(bits, 32))
                if code[-1] in "bhi":
                    ctx.assume(value < (1 << (bits - 1)))
                if field.length > 1:
                    value = [value] * field.length
                if which == "sv":
                    mc.write_struct_field("sv", fname, value, X, Y)
                else:
                    if field.length > 1:
                        ctx.observe("skip array field")
                        ctx.prove(True, "skip")
                        return
                    mc.write_vcpu_struct_field(fname, value, X, Y, p)
                ctx.observe("written", fname)
        except Exception as e:
            ctx.observe(type(e).__name__)
            ctx.prove(False, "memory-unexpected-exception",
                      (fname, repr(e)))
            return
        ctx.witness(which + "-" + op)
        # the field's own command(s): the last transfer(s) in the log
        cmds = [q for q in machine.log[mark:] if int(q.cmd) in (2, 3)]
        if which == "vcpu":
            # first the read of sv.vcpu_base, then the field itself
            ctx.prove(len(cmds) >= 2, "struct-field-commands")
            cmds = cmds[1:] if len(cmds) > 1 else cmds
            if int(machine.log[mark].cmd) == 0:
                pass
        total = 0
        for q in cmds:
            total = total + q.arg2
        ctx.prove(sand(cmds[0].arg1 == address) if cmds else False,
                  "struct-field-wrong-address",
                  (fname, cmds[0].arg1 if cmds else None, address))
        full = real_struct.calcsize(whole)
        ctx.prove(total == full, "struct-field-wrong-length",
                  (fname, total, full))
        want_p = p if which == "vcpu" else 0
        for q in cmds:
            ctx.prove(sand(q.dest_x == X, q.dest_y == Y,
                           q.dest_cpu == (0 if which == "sv" else 0)),
                      "struct-field-wrong-core")
        if op == "read":
            raw = mem.read(address, full)
            exp = sstruct.unpack(whole, raw)
            if field.length <= 1 and len(exp) == 1:
                exp = exp[0]
            if isinstance(val, (tuple, list)):
                ok = len(val) == len(exp)
                ctx.prove(ok, "struct-field-wrong-value")
                for a, b in zip(val, exp):
                    ctx.prove(a == b, "struct-field-wrong-value", fname)
            else:
                ctx.prove(val == exp, "struct-field-wrong-value",
                          (fname, val, exp))
        else:
            raw = mem.read(address, full)
            got = sstruct.unpack(whole, raw)
            vals = value if isinstance(value, list) else [value]
            for a, b in zip(got, vals):
                ctx.prove(a == b, "struct-field-wrong-value", fname)
    _check_commands(ctx, machine, buf, (), (X, Y, 0))


def h_vcpu_history(ctx):
    """Per-core fields through ONE controller, several accesses: on two chips
    whose sv.vcpu_base differ, and on one chip whose sv.vcpu_base is rewritten
    (through the controller itself) between two accesses.  Every access must
    go to base-of-that-chip-now + 128 * core + offset."""
    from rig.machine_control import MachineController
    from sx.shims import struct as sstruct
    buf = 16
    machine, world, patch = _controller(ctx, buf)
    X2, Y2 = 1, 0
    with patch:
        mc = MachineController("host")
        sv = mc.structs[b"sv"]
        vcpu = mc.structs[b"vcpu"]
        vb_field = sv[b"vcpu_base"]
        bases = {}
        for chip in ((X, Y), (X2, Y2)):
            vb = ctx.bv("vcpu_base", 30)
            bases[chip] = vb
            machine.memory(chip).write(sv.base + vb_field.offset,
                                       sstruct.pack("<I", vb))
        shape = ctx.pick(["two chips", "base moved"])
        steps = []
        if shape == "two chips":
            steps = [("access", (X, Y)), ("access", (X2, Y2))]
        else:
            steps = [("access", (X, Y)), ("move", (X, Y)),
                     ("access", (X, Y))]
        for nstep, (what, chip) in enumerate(steps):
            mark = len(machine.log)
            try:
                if what == "move":
                    nb = ctx.bv("new_base", 30)
                    mc.write_struct_field("sv", "vcpu_base", nb, *chip)
                    bases[chip] = nb
                    ctx.observe("moved")
                    continue
                # the first access is a plain read; the last one is any
                fname, op = "cpu_state", "read"
                if nstep:
                    fname = ctx.pick(["cpu_state", "user0"])
                    op = ctx.pick(["read", "write"])
                field = vcpu[fname.encode("ascii")]
                p = ctx.bv("p", 5)
                ctx.assume(p <= 17)
                address = bases[chip] + vcpu.size * p + field.offset
                if op == "read":
                    val = mc.read_vcpu_struct_field(fname, chip[0], chip[1],
                                                    p)
                    ctx.observe("read", fname, val)
                else:
                    value = ctx.bv("value", 8)
                    mc.write_vcpu_struct_field(fname, value, chip[0],
                                               chip[1], p)
                    ctx.observe("written", fname)
            except Exception as e:
                ctx.observe(type(e).__name__)
                ctx.prove(False, "memory-unexpected-exception", repr(e))
                return
            whole = b"<" + field.pack_chars
            full = sstruct.calcsize(whole)
            cmds = [q for q in machine.log[mark:] if int(q.cmd) in (2, 3)]
            ctx.prove(len(cmds) >= 1, "struct-field-commands")
            if not cmds:
                return
            last = cmds[-1]
            ctx.prove(sand(last.dest_x == chip[0], last.dest_y == chip[1],
                           last.dest_cpu == 0), "struct-field-wrong-core")
            ctx.prove(last.arg1 == address, "struct-field-wrong-address",
                      (fname, chip, last.arg1, address))
            raw = machine.memory(chip).read(address, full)
            exp = sstruct.unpack(whole, raw)[0]
            if op == "read":
                ctx.prove(val == exp, "struct-field-wrong-value",
                          (fname, val, exp))
            else:
                ctx.prove(exp == value, "struct-field-wrong-value",
                          (fname, exp, value))
            ctx.witness("history-" + op)
    _check_commands(ctx, machine, buf, (), (X, Y, 0))


def units(tier, seed):
    us = []
    q = tier == "quick"
    lens = (0, 1, 3, 4, 5, 8, 9, 10, 12) if q else tuple(range(0, 17))
    bufs = (4, 6) if q else (4, 6, 8)
    us.append(Unit("write lengths=%s bufs=%s" % (lens, bufs), h_rw,
                   dict(op="write", lengths=lens, bufs=bufs), split=5,
                   witnesses=("wrote",)))
    us.append(Unit("read lengths=%s bufs=%s" % (lens, bufs), h_rw,
                   dict(op="read", lengths=lens, bufs=bufs), split=5,
                   witnesses=("read",)))
    us.append(Unit("fill", h_fill,
                   dict(sizes=(0, 3, 4, 8, 12) if q else tuple(range(0, 17)),
                        bufs=(8,) if q else (4, 8)), split=4,
                   witnesses=("word-fill", "byte-fill")))
    # regions larger than one buffer and than any small-size special case
    for op, w in (("write", "wrote"), ("read", "read")):
        us.append(Unit("%s large" % op, h_rw_large,
                       dict(op=op, lengths=(515,) if q else
                            (515, 1024, 1029, 2050), bufs=(256,)), split=3,
                       witnesses=(w,), path_timeout_s=300,
                       timeout_ms=300000))
    us.append(Unit("fill large", h_fill,
                   dict(sizes=(259, 516) if q else (259, 516, 1001, 1024),
                        bufs=(256,)), split=3,
                   witnesses=("word-fill", "byte-fill"),
                   path_timeout_s=300, timeout_ms=300000))
    us.append(Unit("link", h_link,
                   dict(words=(0, 1, 3) if q else (0, 1, 2, 3, 5),
                        bufs=(6, 8) if q else (4, 6, 8, 13)), split=4,
                   witnesses=("link-write", "link-read", "link-rejected")))
    us.append(Unit("sv fields", h_struct,
                   dict(which="sv", nfields=8 if q else 10 ** 6), split=4,
                   witnesses=("sv-read", "sv-write")))
    us.append(Unit("vcpu fields", h_struct,
                   dict(which="vcpu", nfields=6 if q else 10 ** 6), split=4,
                   witnesses=("vcpu-read", "vcpu-write", "vcpu-text-read",
                              "vcpu-text-write")))
    us.append(Unit("vcpu fields, one controller, several accesses",
                   h_vcpu_history, {}, split=5,
                   witnesses=("history-read", "history-write")))
    # network faults under the transfers (windowed bursts of chunks)
    FK = ("lose_req", "lose_rep", "dup")
    us.append(Unit("write with faults", h_rw, dict(
        op="write", lengths=(5,), bufs=(4,), windows=(2,),
        faults=1, kinds=("lose_rep",)), split=6,
        witnesses=("wrote",), path_timeout_s=120))
    # several datagrams drained in one wake-up of the event loop (window 2,
    # every delivery order and grouping): each callback must still get its
    # own reply
    us.append(Unit("read, replies arriving together", h_rw, dict(
        op="read", lengths=(5,), bufs=(4,), windows=(2,),
        faults=0, kinds=(), multi=True), split=4,
        witnesses=("read",), path_timeout_s=120))
    us.append(Unit("read with faults", h_rw, dict(
        op="read", lengths=(5,), bufs=(4,), windows=(2,),
        faults=1, kinds=("dup",)), split=6,
        witnesses=("read",), path_timeout_s=120))
    if not q:
        us.append(Unit("write, 2 chunks, 3 fault kinds", h_rw, dict(
            op="write", lengths=(6,), bufs=(4,), windows=(2, 3),
            faults=1, kinds=FK), split=8, witnesses=("wrote",),
            path_timeout_s=120))
        us.append(Unit("read, 2 chunks, 3 fault kinds", h_rw, dict(
            op="read", lengths=(6,), bufs=(4,), windows=(2,),
            faults=1, kinds=FK), split=8, witnesses=("read",),
            path_timeout_s=120))
        us.append(Unit("write, 2 faults", h_rw, dict(
            op="write", lengths=(5,), bufs=(4,), windows=(2,),
            faults=2, kinds=("lose_rep", "dup")), split=8,
            witnesses=("wrote",), path_timeout_s=120))
    return us
