import random, sys, warnings, itertools, collections
warnings.simplefilter("ignore")
random.seed(1)
from rig.geometry import *
from rig.links import Links
from rig.place_and_route.route.utils import longest_dimension_first
from collections import deque
def bfs(w, h):
    d = {(0, 0): 0}; q = deque([(0, 0)])
    while q:
        x, y = q.popleft()
        for l in Links:
            dx, dy = l.to_vector(); n = ((x+dx) % w, (y+dy) % h)
            if n not in d: d[n] = d[(x, y)] + 1; q.append(n)
    return d
bad = 0
for w in range(1, 10):
    for h in range(1, 10):
        d = bfs(w, h)
        for (x, y), dist in d.items():
            for rep in range(3):
                sx, sy = random.randrange(w), random.randrange(h); z = random.randrange(-3, 4); z2 = random.randrange(-3, 4)
                s = (sx + z, sy + z, z); t = ((sx + x) + z2, (sy + y) + z2, z2)
                L = shortest_torus_path_length(s, t, w, h)
                v = shortest_torus_path(s, t, w, h)
                if L != dist: bad += 1; print("LEN", w, h, x, y, L, dist)
                if sum(map(abs, v)) != dist: bad += 1; print("VEC", w, h, x, y, v, dist)
                if ((sx + v[0] - v[2]) % w, (sy + v[1] - v[2]) % h) != ((sx + x) % w, (sy + y) % h): bad += 1; print("END", w, h, x, y, v)
                ldf = longest_dimension_first(v, (sx, sy), w, h)
                cur = (sx, sy)
                for direction, pos in ldf:
                    dx, dy = direction.to_vector()
                    if ((cur[0]+dx) % w, (cur[1]+dy) % h) != pos: bad += 1; print("LDF", w, h, v, cur, direction, pos)
                    cur = pos
                if cur != ((sx + x) % w, (sy + y) % h): bad += 1; print("LDFEND")
print("C11 bad", bad)
# C19
TILE = set((i, j) for i in range(8) for j in range(8) if -3 <= i - j <= 4)
assert len(TILE) == 48
bad = 0
for w, h in [(12, 12), (24, 12), (12, 24), (36, 24), (8, 8), (20, 16)]:
    for rx, ry in [(0, 0), (4, 8), (3, 5), (11, 11), (13, 2)]:
        eths = set(spinn5_eth_coords(w, h, rx, ry))
        for x in range(w):
            for y in range(h):
                e = spinn5_local_eth_coord(x, y, w, h, rx, ry)
                c = spinn5_chip_coord(x, y, rx, ry)
                if c not in TILE: bad += 1; print("tile", x, y, c)
                if ((x - c[0]) % w, (y - c[1]) % h) != e: bad += 1; print("eth", x, y, e, c)
                if ((e[0] - rx) % 12, (e[1] - ry) % 12) not in ((0, 0), (4, 8), (8, 4)) and w % 12 == 0 and h % 12 == 0: bad += 1; print("ethmod", x, y, e)
                if w % 12 == 0 and h % 12 == 0 and e not in eths: bad += 1; print("notin", e)
                for l in Links:
                    dx, dy = l.to_vector()
                    c2 = (c[0] + dx, c[1] + dy)
                    leaves = c2 not in TILE
                    f = spinn5_fpga_link(x, y, l, rx, ry)
                    if (f is not None) != leaves: bad += 1; print("fpga", x, y, l, c, f)
        if w % 12 == 0 and h % 12 == 0 and len(eths) != 3 * (w // 12) * (h // 12): bad += 1; print("count", w, h, rx, ry, len(eths))
print("C19 bad", bad)
for n in range(0, 400, 3):
    w, h = standard_system_dimensions(n)
    if n > 1: assert (w // 12) * (h // 12) * 3 == n and w >= h, n
